"""Drives the real SwitcherType1Api / SwitcherType2Api against a scripted fake device on the
virtual network and records the events Trace_Client judges.

A scenario:
  {"zone": "UTC", "t0": 1790000000.25,
   "inst": [{"api": 1, "dev": "a1b2c3", "key": "18"}, ...],
   "ops":  [[op, op, ...] per instance],      op = {"op", "a", "replies", "tick": [before, mid...]}
   "order": [instance index, ...]}            release order of pending replies (optional)
The reply descriptors are turned into bytes by devreply(); the harness trusts none of that:
TLC classifies every reply itself.
"""
from __future__ import annotations

import asyncio
import random
from binascii import unhexlify
from datetime import timedelta

from . import enums, vnet
from .clock import frozen, host_zone, text, zone_rules
from .irsets import spec_set

HOSTS = ["10.1.1.1", "10.1.1.2", "10.1.1.3"]
FAR_BASE = 3551 * 7 * 86400          # 2038-01-20, a whole number of weeks after the epoch


# ----------------------------------------------------------------------------------------
# device side: replies
def _fill(rng: random.Random, n: int) -> bytearray:
    return bytearray(rng.randbytes(n))


def devreply(d: dict, dev_state: dict) -> bytes:
    """Reply bytes for a descriptor.  Every second reply carries the header real devices send (magic, its own total length,
    header terminator) around the same random filler; a reply cut short keeps the length its header announced."""
    b = _devreply(d, dev_state)
    if d["t"] in ("login", "ack", "state1", "thermo", "shutter", "sched", "listing") and len(b) >= 44 and d.get("hdr", d.get("seed", 1) % 2 == 0):
        b = bytearray(b)
        b[0:2] = b"\xfe\xf0"
        b[2:4] = len(b).to_bytes(2, "little")
        b[38:40] = b"\xf0\xfe"
        b = bytes(b)
    return b


def _devreply(d: dict, dev_state: dict) -> bytes:
    t = d["t"]
    rng = random.Random(d.get("seed", 1))
    if t == "eof":
        return b""
    if t == "raw":
        return bytes(d["b"])
    if t == "login":
        b = _fill(rng, d.get("len", 44))
        if "sess" in d and len(b) >= 12:
            b[8:12] = bytes(d["sess"])          # a session id that happens to contain protocol markers
        return bytes(b)
    if t == "short":
        return bytes(_fill(rng, d["n"]))
    if t == "ack":
        return bytes(_fill(rng, d.get("len", 54))) or b"\x01"
    if t == "garbage":
        return bytes(_fill(rng, d["n"]))
    if t == "state1":
        b = _fill(rng, d.get("len", 107))
        b[75] = d["state"]
        b[77:79] = int(d["watts"]).to_bytes(2, "little")
        b[89:93] = int(d["left"]).to_bytes(4, "little")
        b[93:97] = int(d["on"]).to_bytes(4, "little")
        b[97:101] = int(d["auto"]).to_bytes(4, "little")
        return bytes(b)
    if t == "thermo":
        b = _fill(rng, d.get("len", 109))
        b[76:78] = int(d["temp10"]).to_bytes(2, "little")
        b[78] = d["state"]
        b[79] = d["mode"]
        b[80] = d["target"]
        b[81] = (d["fan"] << 4) | d["swing"]
        rid = d["remote"].encode()
        b[84:92] = rid + b"\x00" * (8 - len(rid))
        return bytes(b)
    if t == "shutter":
        b = _fill(rng, d.get("len", 100))
        b[76] = d["position"]
        b[78:80] = bytes(d["direction"])
        return bytes(b)
    if t == "sched":
        b = _fill(rng, 45)
        for r in d["recs"]:
            b += bytes([r["id"], r.get("enabled", 1), r["mask"], r.get("state", 1)])
            b += int(r["start"]).to_bytes(4, "little") + int(r["end"]).to_bytes(4, "little") + bytes(rng.randbytes(4))
        b += rng.randbytes(4)
        return bytes(b)
    if t == "listing":
        b = _fill(rng, 45)
        for k, rec in sorted(dev_state["slots"]):
            b += bytes([k, 1]) + rec[0:1] + b"\x01" + rec[1:5] + rec[5:9] + bytes(rng.randbytes(4))
        b += rng.randbytes(4)
        return bytes(b)
    if t == "prefix":
        full = devreply(d["of"], dev_state)
        return full[: d["n"]]
    if t == "mutate":
        full = bytearray(devreply(d["of"], dev_state))
        for off, val in d["set"]:
            if off < len(full):
                full[off] = val
        return bytes(full)
    raise ValueError(t)


def _store_if_create(frame: bytes, dev_state: dict):
    """The fake device keeps the 9 bytes (mask, start, end) of an acknowledged create-schedule frame.
    Recognised by its fixed marker only; TLC re-derives the same from its own decoder (ListingClauses)."""
    if len(frame) == 99 and frame[79:84] == b"\x00\x03\x0c\x00\xff":
        used = {k for k, _ in dev_state["slots"]}
        free = next(i for i in range(len(used) + 1) if i not in used)          # the lowest free slot
        dev_state["slots"].append((free, frame[85:86] + frame[87:95]))
    elif len(frame) == 88 and frame[79:83] == b"\x00\x08\x01\x00":           # delete: the named slot is emptied
        dev_state["slots"] = [(k, r) for k, r in dev_state["slots"] if k != frame[83]]


# ----------------------------------------------------------------------------------------
# client side: calls
def _remote_for(irset: dict, cache: dict):
    """One remote object per IR set and scenario (as applications keep them); every other set is loaded through
    SwitcherBreezeRemoteManager from a temporary database file."""
    import json as _json
    import os as _os
    import tempfile as _tempfile
    from aioswitcher.api.remotes import SwitcherBreezeRemote, SwitcherBreezeRemoteManager
    key = _json.dumps(irset, sort_keys=True)
    if key not in cache:
        if len(cache) % 2 == 1:
            with _tempfile.TemporaryDirectory() as td:
                path = _os.path.join(td, "irset_db.json")
                with open(path, "w") as f:
                    _json.dump({irset["IRSetID"]: irset}, f)
                mgr = SwitcherBreezeRemoteManager(path)
                cache[key] = mgr.get_remote(irset["IRSetID"])
        else:
            cache[key] = SwitcherBreezeRemote(irset)
    return cache[key]


class CallerGaveUp(Exception):
    """The caller's own patience ran out (its wait_for around the call fired)."""


class _Minutes(int):
    """An int subclass (what enum members, numpy-like scalars and configuration objects look like to the library)."""


def _make_call(api, op: str, a: dict, remotes: dict | None = None):
    from aioswitcher.api import Command
    from aioswitcher.api.remotes import SwitcherBreezeRemote
    from aioswitcher.device import DeviceState, ThermostatFanLevel, ThermostatMode, ThermostatSwing
    from aioswitcher.schedule import Days
    if op == "control_device":
        minutes = int(a["minutes_s"]) if "minutes_s" in a else a["minutes"]
        if minutes % 5 == 1:
            minutes = _Minutes(minutes)                    # an int is an int, whatever its class
        if minutes == 0 and a["on"] == 0:
            return api.control_device(Command.OFF)         # the timer argument is optional
        if minutes % 3 == 2:                                # callers name optional arguments as often as not
            return _named(api.control_device, (Command.ON if a["on"] else Command.OFF,), {"minutes": minutes})
        return api.control_device(Command.ON if a["on"] else Command.OFF, minutes)
    if op == "set_auto_shutdown":
        secs = a["secs"]
        v = (secs // 60) % 4                               # the same duration, built the ways callers build it
        if v == 1 and secs >= 0:
            return api.set_auto_shutdown(timedelta(hours=secs // 3600, minutes=(secs % 3600) // 60, seconds=secs % 60))
        if v == 2 and secs >= 0:
            return api.set_auto_shutdown(timedelta(minutes=secs // 60, seconds=secs % 60, microseconds=0))
        if v == 3 and secs >= 0:
            return api.set_auto_shutdown(timedelta(milliseconds=1000 * secs))
        return api.set_auto_shutdown(timedelta(seconds=secs))
    if op == "set_device_name":
        if len(a["cps"]) % 2:
            return _named(api.set_device_name, (), {"name": "".join(chr(c) for c in a["cps"])})
        return api.set_device_name("".join(chr(c) for c in a["cps"]))
    if op == "delete_schedule":
        if a["slot"] % 2:
            return _named(api.delete_schedule, (), {"schedule_id": str(a["slot"])})
        return api.delete_schedule(str(a["slot"]))
    if op == "create_schedule":
        D = sorted(Days, key=lambda d: d.weekday)
        days = [D[x] for x in a["days"]]
        arg = set(days) if a.get("form", "set") == "set" else (list(days) if a["form"] == "list" else tuple(days))
        if isinstance(arg, set) and len(days) % 3 == 2:
            arg = frozenset(days)
        if len(days) % 2:
            return _named(api.create_schedule, (a["start_s"], a["end_s"]), {"days": arg})
        if len(days) == 4:
            return _named(api.create_schedule, (), {"start_time": a["start_s"], "end_time": a["end_s"], "days": arg})
        return api.create_schedule(a["start_s"], a["end_s"], arg)
    if op == "set_position":
        if a["pos"] % 2:
            return _named(api.set_position, (), {"position": a["pos"]})
        return api.set_position(a["pos"])
    if op == "control_breeze_device":
        M = {1: ThermostatMode.AUTO, 2: ThermostatMode.DRY, 3: ThermostatMode.FAN, 4: ThermostatMode.COOL, 5: ThermostatMode.HEAT}
        F = {0: ThermostatFanLevel.AUTO, 1: ThermostatFanLevel.LOW, 2: ThermostatFanLevel.MEDIUM, 3: ThermostatFanLevel.HIGH}
        S = {0: DeviceState.OFF, 1: DeviceState.ON}
        W = {0: ThermostatSwing.OFF, 1: ThermostatSwing.ON}
        remote = _remote_for(a["irset"], remotes if remotes is not None else {})
        return api.control_breeze_device(remote, S.get(a["state"]), M.get(a["mode"]), a["temp"], F.get(a["fan"]),
                                         W.get(a["swing"]), a["update"])
    return getattr(api, op)()


def _named(fn, pos: tuple, named: dict):
    """Call with the optional arguments passed by keyword; a signature that does not know the documented names is called
    positionally instead (argument binding happens at the call, before anything is awaited)."""
    try:
        return fn(*pos, **named)
    except TypeError:
        return fn(*pos, *named.values())


_MODE = {"01": 1, "02": 2, "03": 3, "04": 4, "05": 5}


def _result_fields(op: str, res, a: dict) -> dict:
    if op == "get_state":
        return {"state": enums.state(res.state), "watts": enums.integer(res.power_consumption),
                "amps10": enums.tenths(res.electric_current), "left": text(res.time_left), "on": text(res.time_on),
                "auto": text(res.auto_shutdown)}
    if op == "get_breeze_state":
        return {"state": enums.state(res.state), "mode": enums.mode(res.mode), "target": enums.integer(res.target_temperature),
                "fan": enums.fan(res.fan_level), "swing": enums.swing(res.swing), "temp10": enums.tenths(res.temperature),
                "remote": text(res.remote_id)}
    if op == "get_shutter_state":
        return {"position": enums.integer(res.position), "direction": enums.direction(res.direction)}
    if op == "get_schedules":
        out = _sched_fields(res, a)
        for sch in res.schedules:          # what a caller does with its own result must not leak into later listings
            try:
                sch.days.clear()
            except Exception:  # noqa: BLE001
                pass
        return out
    return {}


def _sched_fields(res, a: dict) -> dict:
    if True:
        import time as _t
        base = (a["base"][0] << 16) + a["base"][1] if a.get("base") else 0
        return {"zone": a["zone"], "now": int(_t.time()) - base, **({"base": a["base"]} if base else {}), "scheds": [
            {"id": text(s.schedule_id), "recurring": bool(s.recurring), "days": sorted(d.weekday for d in s.days),
             "start": text(s.start_time), "end": text(s.end_time), "duration": text(s.duration), "display": text(s.display)}
            for s in sorted(res.schedules, key=lambda s: int(s.schedule_id))]}
    return {}


def _spec_args(op: str, a: dict) -> dict:
    """What the Call event carries: the arguments in the specification's terms (no Python objects)."""
    if op == "control_device":
        return {"on": a["on"], "minutes": a.get("minutes", 0), "big": "minutes_s" in a}
    if op == "set_auto_shutdown":
        return {"secs": a["secs"]}
    if op == "set_device_name":
        return {"cps": a["cps"]}
    if op == "delete_schedule":
        return {"slot": a["slot"]}
    if op == "create_schedule":
        return {"start": text(a["start_s"]), "end": text(a["end_s"]), "days": a["days"], "zone": a["zone"], "now": a["now"]}
    if op == "set_position":
        return {"pos": a["pos"]}
    if op == "get_schedules":
        return {"zone": a["zone"], **({"base": a["base"]} if a.get("base") else {})}
    if op == "control_breeze_device":
        return {"set": spec_set(a["irset"]), "state": a["state"], "mode": a["mode"], "temp": a["temp"], "fan": a["fan"],
                "swing": a["swing"], "update": a["update"]}
    return {}


# ----------------------------------------------------------------------------------------
class Run:
    def __init__(self, scn: dict):
        self.scn = scn
        self.ev: list[dict] = []
        self.net = vnet.VNet()
        self.loop = vnet.VLoop(self.net, vtime=True)      # virtual clock: a slow device or a timeout costs no real time
        self.apis = []
        self.devs = []
        self.remotes: dict = {}
        self.keep: list = []          # a client keeps what it was given: every returned object stays referenced for the scenario

    def log(self, **e):
        self.ev.append(e)

    def go(self, clk) -> list[dict]:
        self.clk = clk
        try:
            self.loop.run_until_complete(self._main())
        finally:
            self.loop.close()
        return self.ev

    async def _main(self):
        from aioswitcher.api import SwitcherType1Api, SwitcherType2Api
        scn = self.scn
        self.net.queue = asyncio.Queue()
        for k, inst in enumerate(scn["inst"]):
            host = HOSTS[k]
            port = 9957 if inst["api"] == 1 else 10000
            self.net.listen(host, port, True)
            cls = SwitcherType1Api if inst["api"] == 1 else SwitcherType2Api
            api = cls(host, inst["dev"], inst["key"])
            self.apis.append(api)
            self.devs.append({"slots": [], "pending": None})
            self.log(ev="Open", c=k + 1, api=inst["api"], dev=list(unhexlify(inst["dev"])), key=list(unhexlify(inst["key"])))
            await vnet.bounded(api.connect())
            self.net.conns[-1].tag = k
            self.log(ev="Connect", c=k + 1, ok=True, flag=bool(api.connected))
        n = len(scn["inst"])
        cursors = [0] * n                 # next op per instance
        tasks: list[asyncio.Task | None] = [None] * n
        scripts: list[list] = [[] for _ in range(n)]
        cur_ops: list[dict | None] = [None] * n
        nwrites = [0] * n
        pending: dict[int, bytes] = {}    # instance -> frame waiting for its reply
        order = list(scn.get("order", []))

        def conn_of(k: int):
            return [c for c in self.net.conns if c.tag == k][-1]

        def start_next(k: int):
            ops = scn["ops"][k]
            if cursors[k] >= len(ops):
                return False
            if ops[cursors[k]]["op"] != "reconnect" and any(c.tag == k for c in self.net.conns) and conn_of(k).closing:
                # the library has closed the connection itself (after a timeout of its own, or because its caller abandoned an
                # exchange and it will not risk the late answer): the caller connects again before it goes on
                ops.insert(cursors[k], {"op": "reconnect", "after_hangup": True})
            op = ops[cursors[k]]
            cursors[k] += 1
            if op.get("tick"):
                self.clk.shift(op["tick"])
            if op["op"] == "reconnect":          # the caller closes the connection and opens a new one with the same API object
                tasks[k] = asyncio.ensure_future(self._reconnect(k))
                cur_ops[k] = op
                return True
            scripts[k] = list(op["replies"])
            nwrites[k] = 0
            if op["op"] in ("create_schedule", "get_schedules"):
                # the specification needs the clock reading and zone rules in force at the call, not at generation time
                import time as _t
                op["a"]["now"] = int(_t.time())
                op["a"]["zone"] = zone_rules(scn.get("zone", "UTC"), op["a"]["now"], span_days=op["a"].get("span", 5))
                if op["op"] == "get_schedules" and op["a"]["now"] >= 2 ** 31 - 86400 * 40:
                    # after 2038 (TLC's integers are 32-bit): instants and zone rules are counted from a base that is a whole
                    # number of weeks after the epoch (Schedule!Rel)
                    op["a"]["base"] = [FAR_BASE >> 16, FAR_BASE & 0xFFFF]
                    op["a"]["zone"] = [[0 if k == 0 else r[0] - FAR_BASE, r[1]] for k, r in enumerate(op["a"]["zone"])]
            self.cur = op
            self.log(ev="Call", c=k + 1, op=op["op"], a=_spec_args(op["op"], op["a"]), clk=vnet.clk_floor())
            try:
                coro = _make_call(self.apis[k], op["op"], op["a"], self.remotes)
            except Exception as x:  # noqa: BLE001 - raised while building the call (argument conversion)
                self._ret(k, op, None, x)
                return start_next(k)
            tasks[k] = asyncio.ensure_future(self._wrap(coro, op.get("patience")))
            cur_ops[k] = op
            return True

        for k in range(n):
            start_next(k)
        while True:
            await vnet.settle(3)
            # collect what happened: new writes, finished calls
            while not self.net.queue.empty():
                conn, data = self.net.queue.get_nowait()
                if conn.tag is None:          # a connection the library opened on its own: it belongs to the object that dials this address
                    conn.tag = HOSTS.index(conn.addr[0])
                k = conn.tag
                if k in pending and conn.sent_eof:
                    self.log(ev="Reply", c=k + 1, b=[], src="script")            # the read before this write returned b'' at once
                nwrites[k] += 1
                self.log(ev="Write", c=k + 1, b=list(data), clk=vnet.clk_ceil())
                _store_if_create(data, self.devs[k])
                pending[k] = data
            for k in range(n):
                t = tasks[k]
                if t is not None and t.done():
                    tasks[k] = None
                    res, exc = t.result()
                    if cur_ops[k]["op"] == "reconnect":
                        pending.pop(k, None)
                        start_next(k)
                        continue
                    if k in pending and any(c.tag == k and c.sent_eof and not c.closing for c in self.net.conns):
                        # the stream had already ended: the read after this write returned b'' at once
                        self.log(ev="Reply", c=k + 1, b=[], src="script")
                    self._ret(k, cur_ops[k], res, exc)
                    pending.pop(k, None)
                    start_next(k)
            if not self.net.queue.empty():
                continue
            if not pending:
                if all(t is None for t in tasks):
                    break
                if any(t is not None and not t.done() for t in tasks):
                    # a call is blocked although nothing is pending: it waits for a reply it never asked for
                    await vnet.settle(40)      # generous: an operation may take further loop cycles between its steps
                    if not pending and self.net.queue.empty() and not any(t is not None and t.done() for t in tasks):
                        await asyncio.sleep(7200)      # ... or (virtual) time: whatever timer it sleeps on fires now, the caller's patience included
                        await vnet.settle(40)
                    if not pending and self.net.queue.empty() and not any(t is not None and t.done() for t in tasks):
                        for k, t in enumerate(tasks):
                            if t is not None:
                                t.cancel()
                                self.log(ev="Ret", c=k + 1, out="raise", exc="HarnessStuck", ok=False, r={})
                                tasks[k] = None
                        break
                continue
            # release one pending reply: the scenario's order if it names a pending instance, else the lowest
            k = None
            while order:
                cand = order.pop(0)
                if cand in pending:
                    k = cand
                    break
            if k is None:
                k = min(pending)
            frame = pending.pop(k)
            op = cur_ops[k]
            if op.get("cancel_at") == nwrites[k] and tasks[k] is not None and not tasks[k].done():
                # the caller gives up (cancellation / timeout) while waiting for this reply; the device never answers that frame
                tasks[k].cancel()
                await vnet.settle(3)
                t = tasks[k]
                tasks[k] = None
                self.log(ev="Ret", c=k + 1, out="cancelled", exc="CancelledError", ok=False, r={})
                start_next(k)
                continue
            if op.get("tick_mid"):
                self.clk.shift(op["tick_mid"])
            d = scripts[k].pop(0) if scripts[k] else {"t": "eof"}
            if d.get("delay"):
                # a slow device: it answers this frame `delay` (virtual) seconds after it arrived; a client that does not wait
                # that long has ended its call while the reply was pending (and the device then keeps the answer to itself)
                await asyncio.sleep(d["delay"])
                await vnet.settle(3)
                if tasks[k] is not None and tasks[k].done():
                    # the call ended before the answer came.  If the caller gave up, the device keeps the answer to itself (the
                    # drivers' assumption for abandoned calls); if the LIBRARY gave up, the device answers all the same - late
                    res, exc = tasks[k].result()
                    tasks[k] = None
                    self._ret(k, cur_ops[k], res, exc)
                    if not isinstance(exc, CallerGaveUp) and not conn_of(k).closing:
                        data = devreply(d, self.devs[k])
                        self.log(ev="Late", c=k + 1, b=list(data))
                        conn_of(k).feed(data)
                        await vnet.settle(3)
                    if not self.apis[k].connected or conn_of(k).closing:       # a library that hung up on the slow device: the caller connects again
                        scn["ops"][k].insert(cursors[k], {"op": "reconnect", "after_hangup": True})
                    start_next(k)
                    continue
            conn = self._conn(k)
            if d["t"] == "reset":
                # the device resets the session instead of answering this frame (RST): the read fails with ConnectionResetError
                self.log(ev="Reset", c=k + 1)
                conn.reset()
                continue
            data = b"" if conn.sent_eof else devreply(d, self.devs[k])
            self.log(ev="Reply", c=k + 1, b=list(data), src="device" if (d["t"] == "listing" and data) else "script")
            conn.feed(data)
        for k, api in enumerate(self.apis):
            raised = False
            try:
                await vnet.bounded(api.disconnect())
            except Exception:  # noqa: BLE001 - judged by the specification (C18: disconnect is harmless in every state)
                raised = True
            await vnet.settle(3)
            conn = self._conn(k)
            self.log(ev="Disc", c=k + 1, how="disconnect", raised=raised, flag=bool(api.connected), eof=bool(conn.closed_seen))

    @staticmethod
    async def _wrap(coro, patience=None):
        try:
            if patience:       # the caller waits so long and no longer (asyncio.wait_for around the call)
                t = asyncio.ensure_future(coro)
                done, _ = await asyncio.wait({t}, timeout=patience)
                if not done:
                    t.cancel()
                    await asyncio.wait({t})
                    return (None, CallerGaveUp())
                return (t.result(), None)
            return (await coro, None)
        except asyncio.CancelledError:
            raise
        except Exception as x:  # noqa: BLE001 - the class is what the specification judges
            return (None, x)

    async def _reconnect(self, k: int):
        api = self.apis[k]
        old = [c for c in self.net.conns if c.tag == k][-1]
        raised = False
        try:
            await vnet.bounded(api.disconnect())
        except Exception:  # noqa: BLE001
            raised = True
        await vnet.settle(3)
        self.log(ev="Disc", c=k + 1, how="disconnect", raised=raised, flag=bool(api.connected), eof=bool(old.closed_seen))
        await vnet.bounded(api.connect())
        self.net.conns[-1].tag = k
        self.log(ev="Connect", c=k + 1, ok=True, flag=bool(api.connected))
        return (None, None)

    def _conn(self, k: int):
        """The connection instance k talks on now: its latest open one, else the latest (a library may have closed it itself;
        feeding a closed connection does nothing, as with a real socket)."""
        mine = [c for c in self.net.conns if c.tag == k or (c.tag is None and c.addr[0] == HOSTS[k])]
        for c in mine:
            c.tag = k
        live = [c for c in mine if not c.closing]
        return (live or mine)[-1]

    def _ret(self, k: int, op: dict, res, exc):
        if isinstance(exc, CallerGaveUp):
            self.log(ev="Ret", c=k + 1, out="cancelled", exc="CancelledError", ok=False, r={})
            return
        if exc is not None:
            out = "runtime" if type(exc) is RuntimeError else "raise"
            self.log(ev="Ret", c=k + 1, out=out, exc=type(exc).__name__, ok=False, r={})
            return
        self.keep.append(res)
        try:
            r = _result_fields(op["op"], res, _spec_args(op["op"], op["a"]))
        except Exception as x:  # noqa: BLE001
            self.log(ev="Ret", c=k + 1, out="raise", exc="ResultUnreadable:" + type(x).__name__, ok=False, r={})
            return
        self.log(ev="Ret", c=k + 1, out="return", exc="", ok=bool(res.successful), r=r)


def run_scenario(scn: dict) -> list[dict]:
    with host_zone(scn.get("zone", "UTC")), frozen(scn["t0"]) as clk:
        return Run(scn).go(clk)


def quick_capture() -> list[bytes]:
    scn = {"t0": 1790000000.0, "inst": [{"api": 1, "dev": "a1b2c3", "key": "18"}],
           "ops": [[{"op": "get_state", "a": {}, "replies": [{"t": "login", "seed": 5}, {"t": "ack"}]},
                    {"op": "control_device", "a": {"on": 1, "minutes": 30}, "replies": [{"t": "login", "seed": 6}, {"t": "ack"}]}]]}
    evs = run_scenario(scn)
    return [bytes(e["b"]) for e in evs if e["ev"] == "Write"]


# ----------------------------------------------------------------------------------------
# spec -> code: environment scripts generated by TLC (Gen_Client) replayed against the real clients
PLAIN_SET = {"IRSetID": "X", "OnOffType": 0, "IRWaveList": [{"Key": "ar20_f1", "Para": "P", "HexCode": "Har20_f1"},
                                                            {"Key": "off", "Para": "P", "HexCode": "Hoff"}]}
SEP_SET = {"IRSetID": "ELEC7022", "OnOffType": 1, "IRWaveList": [{"Key": "ar20_f1", "Para": "P", "HexCode": "Har20_f1"},
                                                                 {"Key": "on_ar20_f1", "Para": "P", "HexCode": "Hon_ar20_f1"},
                                                                 {"Key": "FUN_d1", "Para": "P", "HexCode": "HFUN_d1"}]}


def _concrete_op(act: dict, rng: random.Random) -> dict:
    op, arg = act["op"], act["arg"]
    if op == "control_device":
        a = {"ok": {"on": 1, "minutes": 0}, "reject": {"on": 1, "minutes_s": "4294967296"}, "open": {"on": 1, "minutes": -5}}[arg]
    elif op == "create_schedule":
        a = {"zone": [[0, 0]], "now": 0, "days": [0], "form": "set", "start_s": "07:30", "end_s": "08:15"}
        if arg == "reject":
            a["end_s"] = "25:00"
    elif op == "control_breeze_device":
        sh = act["shape"]
        a = {"irset": PLAIN_SET if sh["set"] == "plain" else SEP_SET, "state": sh["state"], "mode": sh["mode"], "temp": sh["temp"],
             "fan": sh["fan"], "swing": sh["swing"], "update": bool(sh["update"])}
    else:
        a = {}
    return {"op": op, "a": a, "replies": []}


def _concrete_reply(act: dict, rng: random.Random) -> dict:
    seed = rng.randrange(1 << 30)
    if act["empty"]:
        return {"t": "eof"}
    if act["phase"] == "waitlogin":
        return {"t": "login", "seed": seed, "len": 44} if act["carried"] else {"t": "short", "seed": seed, "n": 5}
    if act["wf"]:
        if act["op"] == "get_state":
            return {"t": "state1", "seed": seed, "state": 1, "watts": 1500, "left": 60, "on": 120, "auto": 3600}
        if act["op"] == "get_shutter_state":
            return {"t": "shutter", "seed": seed, "position": 40, "direction": [0, 0]}
        th = act["th"]
        return {"t": "thermo", "seed": seed, "temp10": 250, "state": th["state"], "mode": th["mode"], "target": th["target"],
                "fan": th["fan"], "swing": th["swing"], "remote": "ELEC7022"}
    return {"t": "garbage", "seed": seed, "n": 60}


class ScriptRun(Run):
    async def _main(self):
        from aioswitcher.api import SwitcherType1Api, SwitcherType2Api
        scn = self.scn
        rng = random.Random(scn.get("seed", 1))
        self.net.queue = asyncio.Queue()
        for k, inst in enumerate(scn["inst"]):
            host = HOSTS[k]
            self.net.listen(host, 9957 if inst["api"] == 1 else 10000, True)
            cls = SwitcherType1Api if inst["api"] == 1 else SwitcherType2Api
            api = cls(host, inst["dev"], inst["key"])
            self.apis.append(api)
            self.devs.append({"slots": [], "pending": None})
            self.log(ev="Open", c=k + 1, api=inst["api"], dev=list(unhexlify(inst["dev"])), key=list(unhexlify(inst["key"])))
            await vnet.bounded(api.connect())
            self.net.conns[-1].tag = k
            self.log(ev="Connect", c=k + 1, ok=True, flag=bool(api.connected))
        n = len(scn["inst"])
        tasks: list = [None] * n
        cur: list = [None] * n
        pending: dict[int, bytes] = {}
        self.skipped = 0

        async def collect():
            await vnet.settle(3)
            while not self.net.queue.empty():
                conn, data = self.net.queue.get_nowait()
                if conn.tag is None:
                    conn.tag = HOSTS.index(conn.addr[0])
                if conn.tag in pending and conn.sent_eof:
                    self.log(ev="Reply", c=conn.tag + 1, b=[], src="script")     # the read before this write returned b'' at once
                self.log(ev="Write", c=conn.tag + 1, b=list(data), clk=vnet.clk_ceil())
                _store_if_create(data, self.devs[conn.tag])
                pending[conn.tag] = data
            for k in range(n):
                t = tasks[k]
                if t is not None and t.done():
                    tasks[k] = None
                    res, exc = t.result()
                    if k in pending and any(c.tag == k and c.sent_eof and not c.closing for c in self.net.conns):
                        self.log(ev="Reply", c=k + 1, b=[], src="script")
                    self._ret(k, cur[k], res, exc)
                    pending.pop(k, None)

        for act in scn["script"]:
            if act["a"] == "tick":
                self.clk.shift(1.0)
                continue
            k = act["c"] - 1
            if act["a"] == "call":
                if tasks[k] is not None:
                    self.skipped += 1
                    continue
                op = _concrete_op(act, rng)
                if op["op"] in ("create_schedule", "get_schedules"):
                    import time as _t
                    op["a"]["now"] = int(_t.time())
                    op["a"]["zone"] = zone_rules(scn.get("zone", "UTC"), op["a"]["now"], span_days=5)
                cur[k] = op
                self.log(ev="Call", c=k + 1, op=op["op"], a=_spec_args(op["op"], op["a"]), clk=vnet.clk_floor())
                tasks[k] = asyncio.ensure_future(self._wrap(_make_call(self.apis[k], op["op"], op["a"], self.remotes)))
                await collect()
            elif act["a"] == "reply":
                if k not in pending:
                    self.skipped += 1
                    continue
                pending.pop(k)
                conn = self._conn(k)
                data = b"" if conn.sent_eof else devreply(_concrete_reply(act, rng), self.devs[k])
                self.log(ev="Reply", c=k + 1, b=list(data), src="script")
                conn.feed(data)
                await collect()
        # let every unfinished call end: the device ends the stream
        for _ in range(8):
            if not pending:
                break
            for k in list(pending):
                pending.pop(k)
                conn = self._conn(k)
                self.log(ev="Reply", c=k + 1, b=[], src="script")
                conn.feed(b"")
            await collect()
        for k, api in enumerate(self.apis):
            if tasks[k] is not None:
                tasks[k].cancel()
            raised = False
            try:
                await vnet.bounded(api.disconnect())
            except Exception:  # noqa: BLE001
                raised = True
            await vnet.settle(3)
            conn = self._conn(k)
            self.log(ev="Disc", c=k + 1, how="disconnect", raised=raised, flag=bool(api.connected), eof=bool(conn.closed_seen))


def run_script(scn: dict) -> list[dict]:
    with host_zone(scn.get("zone", "UTC")), frozen(scn["t0"]) as clk:
        return ScriptRun(scn).go(clk)
