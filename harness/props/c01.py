from .client import P01 as PROP  # noqa: F401
