from .client import P09 as PROP  # noqa: F401
