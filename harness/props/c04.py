"""C04 - the signature is the protocol's double CRC-16 for every byte string."""
from __future__ import annotations

from binascii import hexlify

from ..core import Ctx, Prop


def _t(s: str) -> list[int]:
    return list(s.encode("utf-8", "surrogatepass"))


class C04(Prop):
    id = "C04"
    title = "signature = double CRC-16/CCITT (0x1021/0x1021) for every byte string"
    trace_module = "Trace_Bytes"
    rule = ("inputs: every byte string of length 0..1 and (thorough: all, quick: a seeded sample of) length 2, every "
            "single-bit flip of frames pinned by the repository, random strings up to 4 KiB, upper/mixed-case spellings "
            "and non-hex texts; each input is signed twice (determinism); a shuffled second pass interleaves valid and invalid inputs and "
            "repeats earlier ones (history independence). distinct = distinct (input, outcome) events; "
            "non-trivial = input not the empty string")
    assumptions = [
        "Bytes!Crc16 is the CRC-16/CCITT of the statement: MC_Bytes checks it against the bitwise definition on all 65,793 "
        "strings of length <= 2, against the public check values 0x31C3/0x29B1, and against the first signature half of the "
        "eight unsanitised device messages shipped in tests/testresources",
    ]

    def mc_runs(self, ctx):
        return [{"module": "MC_Bytes", "timeout": 600}]

    def scenarios(self, ctx: Ctx):
        rng = ctx.rng
        texts: list[str] = [""]
        texts += [hexlify(bytes([a])).decode() for a in range(256)]
        if ctx.quick:
            pairs = {(rng.randrange(256), rng.randrange(256)) for _ in range(6000)}
            pairs |= {(a, b) for a in (0, 1, 0x0f, 0x10, 0x7f, 0x80, 0xff) for b in range(256)}
            pairs |= {(b, a) for a in (0, 1, 0x0f, 0x10, 0x7f, 0x80, 0xff) for b in range(256)}
        else:
            pairs = {(a, b) for a in range(256) for b in range(256)}
        texts += [hexlify(bytes(p)).decode() for p in sorted(pairs)]
        # single-bit flips of real frames
        from ..frames import real_frames
        frames = real_frames()
        for fr in frames[: ctx.pick(4, len(frames))]:
            for bit in range(len(fr) * 8):
                b = bytearray(fr)
                b[bit // 8] ^= 1 << (bit % 8)
                texts.append(hexlify(bytes(b)).decode())
        # byte strings that look like frames of the protocol in various states of completion: the signer signs what it is given,
        # whatever it looks like (zeroed / wrong / right length field, with and without magic, already signed, cut short)
        for fr in frames:
            body = bytes(fr[:-4])
            for lenfield in (b"\x00\x00", b"\xff\xff", len(fr).to_bytes(2, "little"), len(body).to_bytes(2, "little"), (len(fr) + 1).to_bytes(2, "little")):
                texts.append(hexlify(body[:2] + lenfield + body[4:]).decode())
            texts.append(hexlify(bytes(fr)).decode())                      # signing a signed frame
            texts.append(hexlify(body[:40]).decode())                      # header only
            texts.append(hexlify(b"\xfe\xf0\x00\x00" + rng.randbytes(rng.choice([0, 1, 4, 36, 40, 80]))).decode())
            texts.append(hexlify(b"\xf0\xfe" + body[2:]).decode())
        texts += ["fef0", "fef00000", "fef0000000", "fef00000" + "00" * 36, "FEF00000" + "ab" * 40, "fef0" + "0000" * 30]
        for _ in range(ctx.pick(60, 600)):
            n = rng.choice([3, 4, 5, 7, 8, 16, 31, 32, 33, 34, 64, 100, 255, 256, 257, 1000, 1024, 4095, 4096])
            n = n if rng.random() < 0.6 else rng.randrange(3, 4097)
            texts.append(hexlify(rng.randbytes(n)).decode())
        base = list(texts[-40:]) + [hexlify(bytes([a, 0xab, 0xcd, 0xef])).decode() for a in range(0, 256, 5)]
        for t in base:
            texts.append(t.upper())
            texts.append("".join(c.upper() if rng.random() < 0.5 else c for c in t))
        bad = ["a", "abc", "0g", "g0", "zz", " ", "ab cd", "ab ", " ab", "0x12", "12\n", "אב", "éé",
               "１２", "1١", "just a regular string", "fef0\u0000", "-1", "+1", "1_", "0.", "ab\tcd", "ABCDEFG",
               "fe f0", "\U0001f600\U0001f600", "12345", "0" * 81, "f" * 4097,
               # even-length texts made of hex digits and white space only (a lenient hex parser would skip the blanks)
               "  ", "fe f0 ", "fef0\r\n", " fef0 ", "\n\n", "f e ", "fe\tf0\n ", "ab  ", "\x0bab\x0c", "a b c d ", "fe f0 5d 00 ", "\u00a0ab\u00a0", "ab\x00\x00",
               "0x", "0X12", "ab\x1c\x1d", "\ufeffab ", "ab\u2003\u2003"]
        for _ in range(ctx.pick(40, 400)):
            n = rng.randrange(1, 40)
            bad.append("".join(rng.choice("0123456789abcdefABCDEFgxz -:") for _ in range(n)))
        for _ in range(ctx.pick(40, 400)):
            n = rng.randrange(1, 20) * 2
            bad.append("".join(rng.choice("0123456789abcdefABCDEF \t\n\r") for _ in range(n)))
        texts += bad
        # history: a shuffled second pass over a sample, valid and invalid inputs interleaved, every input repeated later -
        # what the signer did before must not matter
        sample = rng.sample(texts, min(len(texts), ctx.pick(1500, 20000)))
        again = []
        for k, t in enumerate(sample):
            again.append(t)
            if k % 7 == 3:
                again.append(rng.choice(bad))
            if k % 5 == 2:
                again.append(sample[rng.randrange(k + 1)])
        texts += again
        per = 400
        return [{"texts": texts[i:i + per]} for i in range(0, len(texts), per)]

    def execute(self, scn):
        from aioswitcher.device.tools import sign_packet_with_crc_key as sign
        evs = []
        for t in scn["texts"]:
            e = {"ev": "Sign", "in": _t(t), "raised": False, "out": [], "out2": [], "raised2": False}
            try:
                e["out"] = _t(sign(t))
            except Exception as x:  # noqa: BLE001 - the class is recorded, the spec only needs "raised"
                e["raised"] = True
                e["exc"] = type(x).__name__
            try:                     # the very same input again, whatever happened the first time
                e["out2"] = _t(sign(t))
            except Exception:  # noqa: BLE001
                e["raised2"] = True
            evs.append(e)
        return evs

    def nontrivial(self, ev):
        return len(ev["in"]) > 0


PROP = C04()
