"""One module per listed property; each exposes PROP (a core.Prop instance)."""
import importlib

IDS = [f"C{n:02d}" for n in range(1, 20)]
BEYOND = ["X01", "X02", "X03", "X04", "X05", "X06"]          # conformance of specification parts that no listed property claims (./check X01 ...)


def load(pid: str):
    if pid in BEYOND:
        return getattr(importlib.import_module("harness.props.beyond"), pid)
    return importlib.import_module(f"harness.props.{pid.lower()}").PROP
