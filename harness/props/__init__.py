"""One module per listed property; each exposes PROP (a core.Prop instance)."""
import importlib

IDS = [f"C{n:02d}" for n in range(1, 20)]


def load(pid: str):
    return importlib.import_module(f"harness.props.{pid.lower()}").PROP
