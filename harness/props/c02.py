from .client import P02 as PROP  # noqa: F401
