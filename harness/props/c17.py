from .bridge import P17 as PROP  # noqa: F401
