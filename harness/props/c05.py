from .bridge import P05 as PROP  # noqa: F401
