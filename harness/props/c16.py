from .client import P16 as PROP  # noqa: F401
