from .client import P10 as PROP  # noqa: F401
