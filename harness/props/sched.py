"""C11, C12, C13, C14 - the schedule tools, judged by Trace_Schedule (Schedule.tla / LocalTime.tla)."""
from __future__ import annotations

import itertools
from datetime import datetime, timezone

from ..clock import (ZONES_ALL, ZONES_QUICK, frozen, host_zone, local_instant, text, transition_days, zone_rules)
from ..core import Ctx, Prop


def _days_enum():
    from aioswitcher.schedule import Days
    return sorted(Days, key=lambda d: d.weekday)


# ----------------------------------------------------------------------------------------------
class C12(Prop):
    id = "C12"
    title = "weekday sets <-> one-byte mask is a bijection"
    trace_module = "Trace_Schedule"
    exhaustive = True
    rule = ("complete: all 127 non-empty weekday sets in each accepted input form (single day, set, duplicate-free list and "
            "tuple in two orders), the empty forms, all sequences of length <= 3 with and without duplicates, sequences of 4..14 entries "
            "with duplicates (among them exactly seven entries), deques and UserLists, all mask values "
            "-2..300 for the decoder. distinct = distinct (input, outcome); non-trivial = not the empty input")
    assumptions = ["odd masks inside 3..253 are not constrained by the statement (it only rejects outside 2..254)"]

    def mc_runs(self, ctx):
        return [{"module": "MC_Days"}]

    def scenarios(self, ctx: Ctx):
        enc = []
        for r in range(0, 8):
            for comb in itertools.combinations(range(7), r):
                enc.append(("set", list(comb)))
                enc.append(("list", list(comb)))
                enc.append(("tuple", list(reversed(comb))))
                if r == 1:
                    enc.append(("single", list(comb)))
        for r in range(1, 4):
            for seq in itertools.product(range(7), repeat=r):
                enc.append(("list", list(seq)))
                enc.append(("tuple", list(seq)))
        enc.append(("list", [0, 1, 2, 3, 4, 5, 6, 0]))
        # duplicates hidden by the LENGTH of the sequence: as many entries as there are days (or as a set of some size has)
        for form in ("list", "tuple", "deque", "userlist"):
            for d in range(7):
                enc.append((form, [d] * 7))
                enc.append((form, [x for x in range(7) if x != d] + [(d + 1) % 7]))
                enc.append((form, [d] * 6))
                enc.append((form, [d, (d + 1) % 7] * 4))
            for n in (4, 5, 6, 7, 8, 14):
                enc.append((form, [ctx.rng.randrange(7) for _ in range(n - 1)] + [0, 0][:1] + [0]))
        enc.append(("frozenset", [1, 3]))
        # sequences that are neither list nor tuple (a deque, a UserList), with and without duplicates
        for form in ("deque", "userlist"):
            for seq in ([0], [6], [1, 3], [6, 0], [0, 1, 2, 3, 4, 5, 6], [0, 0], [6, 6], [1, 3, 1], [2, 5, 5], [0, 1, 2, 3, 4, 5, 6, 3]):
                enc.append((form, list(seq)))
        second = list(enc)
        ctx.rng.shuffle(second)
        enc += second        # the same inputs again in another order (what was encoded before must not matter)
        masks = list(range(-2, 301)) + [511, 512, 1000, 65534]
        # every input once in the default process environment and once with debug logging switched on for the library
        return [{"kind": "enc", "items": enc, "env": {}}, {"kind": "dec", "masks": masks, "env": {}},
                {"kind": "enc", "items": enc, "env": {"debug": True}}, {"kind": "dec", "masks": masks, "env": {"debug": True}}]

    def execute(self, scn):
        from aioswitcher.schedule.tools import bit_summary_to_days, weekdays_to_hexadecimal
        D = _days_enum()
        evs = []
        if scn["kind"] == "enc":
            for form, days in scn["items"]:
                members = [D[d] for d in days]
                import collections
                arg = {"single": lambda: members[0], "set": lambda: set(members), "list": lambda: list(members),
                       "tuple": lambda: tuple(members), "frozenset": lambda: frozenset(members),
                       "deque": lambda: collections.deque(members), "userlist": lambda: collections.UserList(members)}[form]()
                e = {"ev": "Mask", "form": form, "days": days, "raised": False, "out": []}
                try:
                    before = list(arg) if form in ("list", "tuple", "deque", "userlist") else None
                    e["out"] = text(weekdays_to_hexadecimal(arg))
                    if before is not None and list(arg) != before:
                        e["out"] = text("input-mutated")
                except Exception as x:  # noqa: BLE001
                    e["raised"] = True
                    e["exc"] = type(x).__name__
                evs.append(e)
        else:
            for rnd in (0, 1):          # second round: every result of the first round has been tampered with by its caller
                for m in scn["masks"]:
                    e = {"ev": "Days", "mask": m, "raised": False, "out": [], "round": rnd}
                    try:
                        got = bit_summary_to_days(m)
                        e["out"] = sorted(d.weekday for d in got)
                        try:
                            got.clear()     # what a caller does with its own result must not leak into later calls
                        except Exception:  # noqa: BLE001 - an immutable result is fine too
                            pass
                    except Exception as x:  # noqa: BLE001
                        e["raised"] = True
                        e["exc"] = type(x).__name__
                    evs.append(e)
        return evs

    def nontrivial(self, ev):
        return bool(ev.get("days")) or ev["ev"] == "Days"


# ----------------------------------------------------------------------------------------------
class C14(Prop):
    id = "C14"
    title = "duration = (end - start) mod 24 h"
    trace_module = "Trace_Schedule"
    rule = ("quick: every start minute x 16 end minutes (start-2..start+2, 0, 1, 719, 720, 1438, 1439 and 5 seeded random); "
            "thorough: all 1440 x 1440 pairs (exhaustive). One event per start minute carrying all its results. "
            "distinct = distinct events; non-trivial = some end earlier than the start (wrap) in the event")

    def mc_runs(self, ctx):
        return [{"module": "MC_Duration", "cfg": ctx.pick("MC_Duration.cfg", "MC_DurationFull.cfg"), "timeout": 1200}]

    def scenarios(self, ctx: Ctx):
        self.exhaustive = not ctx.quick
        out = []
        # the duration of a schedule does not depend on the host's zone or on today's date (DST-change days included)
        for z, (y, m, d) in (("Asia/Jerusalem", (2026, 3, 27)), ("Asia/Jerusalem", (2026, 10, 25)), ("America/New_York", (2026, 11, 1)),
                             ("Europe/London", (2026, 3, 29)), ("Australia/Lord_Howe", (2026, 4, 5)), ("Pacific/Kiritimati", (2026, 12, 31))):
            rows = [{"s": s, "es": sorted({(s + k) % 1440 for k in (0, 1, 59, 60, 61, 119, 120, 180, 240, 600, 1380, 1439)} | {0, 30, 60, 90, 120, 150, 180, 240})}
                    for s in range(0, 1440, ctx.pick(30, 5))]
            out.append({"rows": rows, "zone": z, "date": [y, m, d]})
        chunk = []
        for s in range(1440):
            if ctx.quick:
                es = sorted({(s + d) % 1440 for d in (-2, -1, 0, 1, 2)} | {0, 1, 719, 720, 1438, 1439}
                            | {ctx.rng.randrange(1440) for _ in range(5)})
            else:
                es = list(range(1440))
            chunk.append({"s": s, "es": es})
            if len(chunk) == (60 if ctx.quick else 6):
                out.append({"rows": chunk})
                chunk = []
        if chunk:
            out.append({"rows": chunk})
        # history: a sample of rows again, in another order, in one long-lived process after everything above
        rows = [r for sc in out if "zone" not in sc for r in sc["rows"]]
        picked = ctx.rng.sample(rows, min(len(rows), 200))
        out.append({"rows": [{"s": r["s"], "es": list(reversed(r["es"]))[:16]} for r in picked], "after_errors": True})
        return out

    def execute(self, scn):
        if scn.get("after_errors") and not scn.get("_inner2"):
            from aioswitcher.schedule.tools import calc_duration
            for bad in (("25:00", "01:00"), ("aa", "bb"), ("12:00", "12:61"), ("", "")):
                try:
                    calc_duration(*bad)
                except Exception:  # noqa: BLE001 - only to leave the function in whatever state an error leaves it in
                    pass
            return self.execute(dict(scn, _inner2=True))
        if "zone" in scn and not scn.get("_inner"):
            y, m, d = scn["date"]
            with host_zone(scn["zone"]), frozen(float(local_instant(scn["zone"], y, m, d, 12, 0))):
                return self.execute(dict(scn, _inner=True))
        from aioswitcher.schedule.parser import SwitcherSchedule
        from aioswitcher.schedule.tools import calc_duration
        evs = []

        def dur(st, en, j):
            # every fourth duration is read off a schedule object, as a listing hands it out: slot ids repeat (a slot that was
            # edited, two devices that both count from 0), the times do not
            if (s + j) % 4 == 1:
                return SwitcherSchedule(str(j % 2), False, set(), st, en).duration
            return calc_duration(st, en)
        for row in scn["rows"]:
            s = row["s"]
            st = f"{s // 60:02d}:{s % 60:02d}"
            evs.append({"ev": "Dur", "s": s, "es": row["es"],
                        "outs": [text(dur(st, f"{e // 60:02d}:{e % 60:02d}", j)) for j, e in enumerate(row["es"])]})
        return evs

    def nontrivial(self, ev):
        return any(e < ev["s"] for e in ev["es"])


# ----------------------------------------------------------------------------------------------
def _dates_for(zone: str, ctx: Ctx) -> list[tuple[int, int, int]]:
    """Local dates to test in a zone: the day before/of/after each 2026 offset change, year ends, a leap day."""
    dates = set()
    from zoneinfo import ZoneInfo
    z = ZoneInfo(zone)
    for t in transition_days(zone, 2026):
        for dd in (-1, 0, 1):
            dt = datetime.fromtimestamp(t + dd * 86400, tz=z)
            dates.add((dt.year, dt.month, dt.day))
    dates |= {(2026, 12, 31), (2027, 1, 1), (2028, 2, 29), (2026, 6, 15)}
    ds = sorted(dates)
    if ctx.quick:
        tr = [d for d in ds if d not in {(2026, 12, 31), (2027, 1, 1), (2028, 2, 29), (2026, 6, 15)}]
        ds = tr[1:2] + tr[4:5] + [(2026, 12, 31)] if len(tr) >= 5 else [(2026, 6, 15), (2026, 12, 31)]
    return ds


FAR_BASE = 3551 * 7 * 86400          # 2038-01-20, a whole number of weeks after the epoch: instants of far-future scenarios are counted from it

from ..clockstrings import LENIENT, MALFORMED  # noqa: E402


class C11(Prop):
    id = "C11"
    title = "clock times survive encoding/decoding in every zone on every date"
    trace_module = "Trace_Schedule"
    rule = ("for each (zone, local date): all 1440 minutes encoded at a 'now' inside that local date and decoded back; every "
            "encoded instant and 300 other instants of the window decoded; malformed and lenient clock strings. Zones cover "
            "+14..-11, half/quarter-hour offsets, both DST hemispheres; dates: day before/of/after each 2026 offset change, "
            "year ends, 29 Feb 2028. distinct = distinct events; non-trivial = zone with an offset change in the window or "
            "non-zero offset")
    assumptions = [
        "minutes that do not exist on the local date (DST gap) are not constrained (statement: 'that exists today')",
        "one-digit / blank-padded spellings the platform's %H:%M grammar accepts ('9:5', ' 09:05') are not constrained",
        "dates after 2038-01-19 are covered up to 2105 (the 32-bit field ends in February 2106); their instants are handed to TLC "
        "relative to a base that is a whole number of weeks after the epoch, because TLC's integers are 32-bit",
        "zone rules handed to the specification come from the tz database via zoneinfo; the library uses libc mktime/localtime",
    ]

    def mc_runs(self, ctx):
        return [{"module": "MC_LocalTime"}]

    def scenarios(self, ctx: Ctx):
        out = []
        zones = ZONES_QUICK if ctx.quick else ZONES_ALL
        for z in zones:
            for (y, m, d) in _dates_for(z, ctx):
                for hh in (0, 12, 23):
                    out.append({"zone": z, "date": [y, m, d], "now_hh": hh, "seed": ctx.rng.randrange(1 << 30)})
        for (y, m, d) in ((2026, 12, 31), (2026, 6, 15)):
            for z in zones:                     # one date, zone after zone, in one process
                out.append({"zone": z, "date": [y, m, d], "now_hh": 12, "seed": 5 * ctx.rng.randrange(1 << 20)})
            for z in zones[:6]:                 # "on any date": after 2038-01-19 the epoch second no longer fits 31 bits (it fits 32 until 2106)
                for fy, fm, fd in ((2038, 1, 18), (2038, 1, 19), (2038, 1, 20), (2040, 3, 25), (2100, 2, 28), (2100, 3, 1), (2105, 12, 31)):
                    out.append({"zone": z, "date": [fy, fm, fd], "now_hh": 12, "seed": 5 * ctx.rng.randrange(1 << 20), "few": True, "base": FAR_BASE})
            for z in zones:                     # ... and with few clock strings, so that nothing remembered is pushed out
                out.append({"zone": z, "date": [y, m, d], "now_hh": 12, "seed": 5 * ctx.rng.randrange(1 << 20), "few": True})
        return out

    def execute(self, scn):
        import random
        from aioswitcher.schedule.tools import hexadecimale_timestamp_to_localtime as dec
        from aioswitcher.schedule.tools import time_to_hexadecimal_timestamp as enc
        from binascii import hexlify, unhexlify
        rng = random.Random(scn["seed"])
        z = scn["zone"]
        y, m, d = scn["date"]
        hh = scn["now_hh"]
        now = local_instant(z, y, m, d, hh, {0: 0, 12: 30, 23: 59}[hh], 17 if hh else 1)
        rules = zone_rules(z, now)
        base = scn.get("base", 0)
        extra = {}
        if base:
            rules = [[0 if k == 0 else r[0] - base, r[1]] for k, r in enumerate(rules)]
            extra = {"base": [base >> 16, base & 0xFFFF]}
        evs = []
        with host_zone(z), frozen(float(now - now % 60) + [0.25, 59.75, 29.5, 59.5, 0.0][scn["seed"] % 5]):
            texts = [f"{mn // 60:02d}:{mn % 60:02d}" for mn in range(1440)] + MALFORMED + LENIENT
            if scn.get("few"):
                texts = [f"{mn // 60:02d}:{mn % 60:02d}" for mn in range(0, 1440, 37)] + ["23:59", "9:30"]
            seen = []
            for t in texts:
                e = {"ev": "Clock", "zone": rules, "now": now - base, "text": text(t), "raised": False, "out": [], "back": [], **extra}
                try:
                    hx = enc(t)
                    e["out"] = list(unhexlify(hx))
                    seen.append(hx)
                    try:
                        e["back"] = text(dec(hx.encode()))
                    except Exception:  # noqa: BLE001
                        e["back"] = []
                except Exception as x:  # noqa: BLE001
                    e["raised"] = True
                    e["exc"] = type(x).__name__
                evs.append(e)
            inst = [now + rng.randrange(-2 * 86400, 2 * 86400) for _ in range(300)]
            for r in rules[1:]:
                inst += [base + r[0] - 1, base + r[0], base + r[0] + 1, base + r[0] - 60, base + r[0] + 59, base + r[0] + 3600]
            for t in inst:
                t4 = list(int(t).to_bytes(4, "little"))
                e = {"ev": "Unclock", "zone": rules, "t4": t4, "raised": False, "out": [], **extra}
                try:
                    e["out"] = text(dec(hexlify(bytes(t4))))
                except Exception as x:  # noqa: BLE001
                    e["raised"] = True
                    e["exc"] = type(x).__name__
                evs.append(e)
        return evs

    def nontrivial(self, ev):
        return len(ev["zone"]) > 1 or ev["zone"][0][1] != 0


# ----------------------------------------------------------------------------------------------
class C13(Prop):
    id = "C13"
    title = "the next-run text names the earliest upcoming run"
    trace_module = "Trace_Schedule"
    rule = ("7 consecutive local dates (all current weekdays) x all 128 day sets x (now, start) minute pairs on a grid with "
            "equality and both neighbours and midnight edges x host zones east and west of UTC; pretty_next_run and "
            "SwitcherSchedule.display. distinct = distinct events; non-trivial = a non-empty day set")
    assumptions = [
        "only the day term of the text is judged (today / tomorrow / next <Weekday>), located by the specification itself "
        "(Schedule!DayTerm); wording around it is open",
        "'still ahead' is read at minute resolution: a start equal to the current minute has passed",
    ]

    def mc_runs(self, ctx):
        return [{"module": "MC_NextRun", "cfg": ctx.pick("MC_NextRun.cfg", "MC_NextRunFull.cfg")}]

    def scenarios(self, ctx: Ctx):
        zones = ["UTC", "Asia/Jerusalem", "America/New_York"] if ctx.quick else \
            ["UTC", "Asia/Jerusalem", "America/New_York", "Asia/Kathmandu", "Pacific/Kiritimati", "Pacific/Pago_Pago"]
        base = [(0, 1), (1, 0), (0, 0), (719, 720), (720, 720), (721, 720), (1439, 0), (0, 1439), (1439, 1439),
                (1438, 1439), (600, 1380), (1380, 600)]
        out = []
        for z in zones:
            for dd in range(7):
                pairs = list(base)
                n_extra = 13 if ctx.quick else 190
                for _ in range(n_extra):
                    a = ctx.rng.randrange(1440)
                    b = ctx.rng.choice([a, (a + 1) % 1440, (a - 1) % 1440, ctx.rng.randrange(1440)])
                    pairs.append((a, b))
                out.append({"zone": z, "date": [2026, 9, 28 + dd] if 28 + dd <= 30 else [2026, 10, 28 + dd - 30],
                            "pairs": pairs, "sec": ctx.rng.choice([0, 1, 30, 59])})
        # the week around every 2026 clock change of the DST zones, at the minutes next to midnight
        for z in [zz for zz in zones if zz not in ("UTC", "Asia/Kathmandu", "Pacific/Kiritimati", "Pacific/Pago_Pago")] + (["Europe/London"] if not ctx.quick else []):
            from zoneinfo import ZoneInfo
            for t in transition_days(z, 2026):
                for dd in range(-4, 3):
                    dt = datetime.fromtimestamp(t + dd * 86400, tz=ZoneInfo(z))
                    out.append({"zone": z, "date": [dt.year, dt.month, dt.day], "sec": ctx.rng.choice([0, 30, 59]),
                                "pairs": [(1439, 0), (1410, 1380), (0, 1439), (30, 0), (90, 60), (1380, 1381), (1425, 10)][: ctx.pick(4, 7)]})
        # history: the same process asked again on an EARLIER day and across new year (nothing remembered from before may leak)
        for z in zones[:2]:
            out.append({"zone": z, "date": [2026, 9, 21], "pairs": base[:6], "sec": 0})
            out.append({"zone": z, "date": [2026, 12, 31], "pairs": [(1439, 0), (1439, 1439), (0, 0)], "sec": 59})
            out.append({"zone": z, "date": [2027, 1, 1], "pairs": [(0, 0), (0, 1), (1, 0)], "sec": 0})
        # a call takes time: every line of library code costs 50 ms here, and midnight falls after the n-th line of the call
        for z in zones[:3]:
            out.append({"zone": z, "date": [2026, 9, 29], "ticking": True, "pairs": [], "sec": 0})
            out.append({"zone": z, "date": [2026, 12, 31], "ticking": True, "pairs": [], "sec": 0})
        return out

    def _ticking(self, scn):
        """Midnight passes WHILE pretty_next_run runs: the answer is the one for 23:59 of the old day or the one for 00:00 of
        the new day, never the old weekday with the new time of day."""
        import sys
        from aioswitcher.schedule.tools import pretty_next_run
        D = _days_enum()
        z = scn["zone"]
        y, m, d = scn["date"]
        evs = []
        step = 0.05
        with host_zone(z), frozen(0.0) as clk:
            midnight = local_instant(z, y, m, d, 23, 59, 59) + 1
            rules = zone_rules(z, midnight - 30)
            wd_old = datetime.fromtimestamp(midnight - 30).weekday()

            def local(frame, event, arg):
                if event == "line":
                    clk.shift(step)
                return local

            def tr(frame, event, arg):
                return local if "aioswitcher" in frame.f_code.co_filename else None
            for n in range(0, 60):                      # midnight falls after the n-th line executed
                for days in ([wd_old], [(wd_old + 1) % 7], [wd_old, (wd_old + 1) % 7], [(wd_old + 2) % 7], list(range(7))):
                    for st in ("00:00", "00:01", "23:59", "12:00"):
                        t0 = midnight - n * step - step / 2
                        clk.move_to(t0)
                        ds = {D[x] for x in days}
                        old = sys.gettrace()
                        sys.settrace(tr)
                        try:
                            txt = pretty_next_run(st, ds)
                        finally:
                            sys.settrace(old)
                        import time as _t
                        t1 = _t.time()
                        evs.append({"ev": "Next", "zone": rules, "now": int(t0 // 1), "now2": int(t1 // 1), "start": text(st), "days": days,
                                    "text": text(txt), "after": sorted(x.weekday for x in ds)})
        return evs

    def execute(self, scn):
        if scn.get("ticking"):
            return self._ticking(scn)
        from aioswitcher.schedule.parser import SwitcherSchedule
        from aioswitcher.schedule.tools import pretty_next_run
        D = _days_enum()
        z = scn["zone"]
        y, m, d = scn["date"]
        evs = []
        subsets = [list(c) for r in range(0, 8) for c in itertools.combinations(range(7), r)]
        # a caller keeps its day sets: one object per subset serves every call of the scenario (a frozenset for some)
        held = {n: (frozenset if n % 11 == 7 else set)(D[x] for x in days) for n, days in enumerate(subsets)}
        with host_zone(z), frozen(0.0) as clk:
            for (nowmin, startmin) in scn["pairs"]:
                now = local_instant(z, y, m, d, nowmin // 60, nowmin % 60, scn["sec"])
                rules = zone_rules(z, now)
                clk.move_to(float(now) + 0.5)
                st = f"{startmin // 60:02d}:{startmin % 60:02d}"
                short = f"{startmin // 60}:{startmin % 60:02d}" if (nowmin + startmin) % 3 == 0 else (f"{startmin // 60:02d}:{startmin % 60}" if (nowmin + startmin) % 3 == 1 else st)
                for n, days in enumerate(subsets):
                    if n % 8 == 3:
                        st, short = short, st          # the same time spelled without leading zeros
                    ds = held[n]
                    if n % 16 == 5:
                        txt = SwitcherSchedule("0", bool(ds), ds, st, "23:59").display
                    else:
                        txt = pretty_next_run(st, ds)
                    after = sorted(x.weekday for x in ds)
                    evs.append({"ev": "Next", "zone": rules, "now": now, "start": text(st), "days": days, "text": text(txt), "after": after})
                    if after != sorted(days):            # reported by the specification; the caller repairs its set and goes on
                        held[n] = (frozenset if n % 11 == 7 else set)(D[x] for x in days)
        return evs

    def nontrivial(self, ev):
        return bool(ev["days"])


P11, P12, P13, P14 = C11(), C12(), C13(), C14()
