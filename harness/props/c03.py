from .client import P03 as PROP  # noqa: F401
