from .bridge import P07 as PROP  # noqa: F401
