from .bridge import P06 as PROP  # noqa: F401
