from .sched import P11 as PROP  # noqa: F401
