"""C05 C06 C07 C17 - the UDP bridge, judged by Trace_Bridge (Bridge.tla over Datagram.tla)."""
from __future__ import annotations

import itertools
import random

from ..core import Ctx, Prop
from ..udpdrive import CODES, FAM, FAMLEN, KINDS, make_datagram

PORTS = [20002, 10002, 20003, 10003]
TYPES = list(CODES)
HEB = "שלום עולם בוילר".encode()


def rname(rng):
    k = rng.random()
    if k < 0.5:
        n = rng.choice([1, 2, 5, 18, 31, 32, rng.randrange(1, 33)])
        return [rng.choice(b"abcdefghijklmnopqrstuvwxyzABCDEFGHIJKLMNOPQRSTUVWXYZ0123456789 _-") for _ in range(n)]
    if k < 0.75:
        n = rng.randrange(1, 17)
        return list(("".join(chr(0x5D0 + rng.randrange(27)) for _ in range(n))).encode())[:32]
    if k < 0.9:
        s = "".join(rng.choice("éüñßøçÅ漢字😀🚿") for _ in range(rng.randrange(1, 9))).encode()
        while len(s) > 32:
            s = s[:-1]
        try:
            s.decode()
        except UnicodeDecodeError:
            s = "é".encode() * 3
        return list(s)
    if k < 0.96:      # names that are not in Unicode normal form C: what the device sent is what must be reported
        return list(rng.choice(["Cafe\u0301", "\u05e9\u05c1\u05bc\u05dc", "\u212b ngstrom", "\u1100\u1161\u11a8", "e\u0301e\u0301 x", "A\u030a"]).encode())
    return list(b"My Switcher Boiler")


def cut_name(rng):
    """A 32-byte name field that ends inside a multi-byte character."""
    tail = rng.choice([[0xD7], [0xE2, 0x82], [0xE2], [0xF0, 0x9F, 0x98], [0xF0, 0x9F], [0xF0], [0xC3]])
    return [97 + rng.randrange(26) for _ in range(32 - len(tail))] + tail


def rdev(rng, typ=None, **kw):
    typ = typ or rng.choice(TYPES)
    fam = FAM[typ]
    d = {"t": "bc", "fam": fam, "code": list(bytes.fromhex(CODES[typ])), "seed": rng.randrange(1 << 30),
         "id": list(rng.randbytes(3)), "key": rng.randrange(256), "name": rname(rng),
         "ip": rng.choice([[192, 168, 1, 33], [10, 0, 0, 1], [0, 0, 0, 0], [255, 255, 255, 255], list(rng.randbytes(4))]),
         "mac": rng.choice([[0x12, 0xA1, 0xA2, 0x1A, 0xBC, 0x1A], list(rng.randbytes(6)), [0] * 6, [255] * 6])}
    if fam in ("heater", "plug"):
        d.update(state=rng.randrange(2), watts=rng.choice([0, 1, 109, 110, 111, 219, 220, 2600, 65535, 61694, 65264, rng.randrange(65536)]),
                 remaining=rng.choice([0, 1, 59, 3600, 5400, 86399, 61694, 65264, 65536, rng.randrange(86400)]),
                 auto=rng.choice([0, 3600, 10800, 86340, 86399, 61694, 65264, 65536, 70000, rng.randrange(86400)]))
        if d["state"] == 0 and rng.random() < 0.25:      # an OFF device's counter may hold anything (it is reported as zero)
            d["remaining"] = rng.choice([86400, 86401, 90000, 16777216, 2147483647, 2147483648, 4294967295])
    elif fam == "thermo":
        d.update(state=rng.randrange(2), mode=rng.randrange(1, 6), target=rng.choice([0, 16, 24, 30, 255, rng.randrange(256)]),
                 fan=rng.randrange(4), swing=rng.randrange(2), temp10=rng.choice([0, 1, 255, 256, 281, 65535, 61694, 65264, rng.randrange(65536)]),
                 remote=list(rng.choice([b"ELEC7022", b"ZM079055", b"ABCDEFGH", b"12345678", b"a b~c{d}"])))
    else:
        d.update(position=rng.choice([0, 1, 24, 50, 99, 100, rng.randrange(101)]), direction=rng.choice([[0, 0], [1, 0], [0, 1]]))
    d.update(kw)
    return d


GAPS = [0.001, 0.05, 0.099, 0.101, 0.5, 1.0, 2.5, 10.0, 59.0, 61.0, 301.0, 3601.0, 86401.0]


def with_gaps(rng, dgrams, every=9):
    """Quiet periods between datagrams (devices broadcast every few seconds; a bridge may run for days): nothing a bridge does
    may depend on how long it has been since the last datagram."""
    out = []
    for n, d in enumerate(dgrams):
        if n and n % every == 0:
            out.append({"do": "wait", "s": GAPS[(n // every) % len(GAPS)] if rng.random() < 0.7 else rng.choice(GAPS)})
        out.append(d)
    return out


def wrap(ports, dgrams, tail_stop=True):
    steps = [{"do": "start"}] + dgrams
    if tail_stop:
        steps += [{"do": "stop"}, {"do": "cycle"}]
    return {"ports": ports, "steps": steps}


def rerun_any(rp: dict, owns) -> list[dict]:
    import warnings
    if "beh" in rp and "family" in rp:          # a TLC-generated behaviour of the end-to-end model (Gen_Switcher)
        from .. import e2edrive
        with warnings.catch_warnings():
            warnings.simplefilter("ignore")
            return [m for m in e2edrive.GenRun(rp["beh"], rp["family"], rp.get("beh_seed", 1)).run() if owns(m["what"])]
    if "beh" in rp:
        from .. import replay
        with warnings.catch_warnings():
            warnings.simplefilter("ignore")
            return replay.BridgeReplay(rp["beh"], rp.get("beh_seed", 1)).run()
    from .. import e2edrive, tlc
    evs = e2edrive.run_scenario(rp["scenario"])
    for k, e in enumerate(evs):
        e["tid"] = 1
        e["k"] = k
    v = tlc.validate("Trace_Switcher", [evs], shards=1)
    return [{"step": b["k"], "action": b["ev"], "what": ",".join(b["why"]), "expected": "device model", "observed": ""} for b in v["bad"]
            if any(owns(c) for c in b["why"])]


class BridgeProp(Prop):
    trace_module = "Trace_Bridge"

    def rerun_behaviour(self, rp):
        return rerun_any(rp, self.owns)
    base_assumptions = [
        "broadcast layouts in Datagram.tla are the sender's layouts reconstructed from the 16 real broadcasts in "
        "tests/testresources (checked by TLC in MC_Datagram, incl. that a device's default name ends in the last two bytes of "
        "the MAC address the specification reads)",
        "datagrams are injected into the bridge's datagram endpoint through the event loop (virtual network: the loop's "
        "create_datagram_endpoint is replaced, the protocol object and its callbacks are the library's own)",
        "the datagram generator is not trusted: TLC classifies (foreign / unknown model / valid / other) and decodes every datagram itself",
    ]

    def mc_runs(self, ctx):
        return [{"module": "MC_Datagram"}]

    def execute(self, scn):
        if scn.get("pyflags"):
            # the same scenario in a fresh interpreter started with these flags (-b / -bb: str() of a bytes object warns / raises,
            # which is what an f-string does to a datagram it logs)
            import json
            import subprocess
            import sys
            from ..core import ROOT
            inner = {k: v for k, v in scn.items() if k != "pyflags"}
            p = subprocess.run([sys.executable] + list(scn["pyflags"]) + ["-c", "import json, sys; from harness.udpdrive import run_scenario; "
                               "json.dump(run_scenario(json.load(sys.stdin)), sys.stdout)"],
                               input=json.dumps(inner), capture_output=True, text=True, timeout=600, cwd=str(ROOT))
            if p.returncode != 0:
                from ..tlc import Machinery
                raise Machinery("bridge scenario failed in an interpreter started with " + " ".join(scn["pyflags"]) + ": " + p.stderr[-400:])
            return json.loads(p.stdout)
        from ..udpdrive import run_scenario
        return run_scenario(scn)

    def nontrivial(self, ev):
        return ev["ev"] in ("Dgram", "Obs", "Start", "Stop")


def bridge_replay(ctx: Ctx, which: set[str]) -> dict:
    """Gen_Bridge behaviours (TLC simulator) stepped through the real bridge; `which` = projections this property owns."""
    import warnings
    from .. import replay, tlcgen
    behs, info = tlcgen.behaviours("Gen_Bridge", "Gen_Bridge.cfg", ctx.pick(400, 6000), 18, ctx.seed % 100000)
    with warnings.catch_warnings():
        warnings.simplefilter("ignore")
        mm = replay.replay_bridge(behs, ctx.seed)
    mine = [dict(m, beh=behs[m["behaviour"]], beh_seed=ctx.seed + m["behaviour"],
                 trace=[[s["a"], s["p"], s["cls"]] for s in behs[m["behaviour"]][: m["step"] + 1]]) for m in mm
            if any(m["what"].startswith(w) for w in which)]
    return {"gen": info, "behaviours": len(behs), "steps": sum(len(b) for b in behs), "mismatches": mine}


class C05(BridgeProp):
    id = "C05"
    title = "a status broadcast is decoded into exactly the device the sender described"
    rule = ("all 9 device types x both states x field values over their domains (IPv4/MAC bytes, names of 1..32 UTF-8 bytes in "
            "several scripts, ids/keys, power 0..65535, times 0..86399, positions 0..100, directions, modes, fan levels, swing, "
            "temperatures, 8-character remote ids) placed into random filler; every delivered object compared field by field. "
            "distinct = distinct events; non-trivial = datagram events")
    assumptions = BridgeProp.base_assumptions + [
        "amps: either neighbouring tenth at an exact tie; last_data_update and the device_state of a shutter are not compared",
    ]

    def scenarios(self, ctx: Ctx):
        rng = ctx.rng
        out = []
        n = ctx.pick(3000, 150000)
        dg = []
        for typ in TYPES:
            for st in (0, 1):
                for _ in range(6):
                    kw = {} if FAM[typ] == "shutter" else {"state": st}
                    dg.append({"do": "dgram", "p": PORTS[0], "d": rdev(rng, typ, **kw)})
        # every byte value in every IP / MAC position
        for pos in range(4):
            for v in range(0, 256, ctx.pick(5, 1)):
                ip = [10, 20, 30, 40]
                ip[pos] = v
                dg.append({"do": "dgram", "p": PORTS[0], "d": rdev(rng, rng.choice(TYPES), ip=ip)})
        for pos in range(6):
            for v in range(0, 256, ctx.pick(5, 1)):
                mac = [1, 2, 3, 4, 5, 6]
                mac[pos] = v
                dg.append({"do": "dgram", "p": PORTS[0], "d": rdev(rng, rng.choice(TYPES), mac=mac)})
        while len(dg) < n:
            dg.append({"do": "dgram", "p": rng.choice(PORTS), "d": rdev(rng)})
        # the user's callback fails now and then, and now and then a device sends a name cut inside a multi-byte character:
        # every OTHER broadcast must still be decoded exactly
        for k in range(7, len(dg), 23):
            dg[k]["cbraise"] = KINDS[(k // 23) % len(KINDS)]
        for k in range(13, len(dg), 37):          # the same broadcast again at once (devices repeat themselves every few seconds)
            dg.insert(k, dict(dg[k - 1]))
        for k in range(11, len(dg), 41):
            dg.insert(k, {"do": "dgram", "p": dg[k]["p"], "d": rdev(rng, name=cut_name(rng))})
        for n, k in enumerate(range(0, len(dg), 100)):
            sc = wrap(PORTS, with_gaps(rng, dg[k:k + 100]) if n % 2 == 0 else dg[k:k + 100])
            if n % 4 == 1:      # a bridge that was used before: started, stopped and started again ...
                sc["steps"] = [{"do": "start"}, {"do": "stop"}, {"do": "cycle"}] + sc["steps"]
            elif n % 4 == 3:    # ... or left through the context manager once
                sc["steps"] = [{"do": "enter"}, {"do": "leave"}, {"do": "cycle"}] + sc["steps"]
            # a remaining time or an auto-shutdown span is a duration, not a wall-clock time: the host's zone must not enter
            sc["zone"] = ["UTC", "Asia/Jerusalem", "America/New_York", "Asia/Kolkata", "Pacific/Auckland", "America/St_Johns"][n % 6]
            out.append(sc)
        return out

    def owns(self, clause):
        return clause.startswith("C05:") or clause == "C07:exactly-one-callback-per-valid-broadcast"

    def mc_runs(self, ctx):
        deep = [] if ctx.quick else [{"module": "Switcher", "cfg": "SwitcherDeep.cfg", "timeout": 1800}]
        fams = [{"module": "Switcher", "cfg": c, "workers": 8} for c in ("SwitcherPlug.cfg", "SwitcherShutter.cfg", "SwitcherThermo.cfg")]
        return [{"module": "MC_Datagram"}, {"module": "Switcher", "cfg": "Switcher.cfg"}] + fams + deep

    def replay_phase(self, ctx):
        from .client import e2e_phase
        return e2e_phase(ctx, lambda c: c.startswith("C05:"))


def known_codes():
    return [bytes.fromhex(c) for c in CODES.values()]


class C06(BridgeProp):
    id = "C06"
    title = "only genuine Switcher broadcasts are accepted; anything else is ignored quietly"
    rule = ("every length 0..400 with and without the magic and with near-miss magics, random content; valid broadcasts "
            "truncated / extended by 1..3 bytes; model codes inside otherwise valid frames of each family (quick: all codes "
            "within Hamming distance 2 of a known code + a seeded sample; thorough: all 65,536 x 3 families). "
            "distinct = distinct events; non-trivial = datagram events")

    def scenarios(self, ctx: Ctx):
        rng = ctx.rng
        dg = []
        for n in range(0, 401):
            for magic in ("no", "yes", "near"):
                dg.append({"do": "dgram", "p": PORTS[0], "d": {"t": "random", "n": n, "magic": magic, "seed": rng.randrange(1 << 30)}})
        for n in list(range(4, 401)):
            if n not in (159, 165, 168):          # magic AND a length field that matches the received length, but a wrong length
                b = bytearray(rng.randbytes(n))
                b[0:2] = b"\xfe\xf0"
                b[2:4] = n.to_bytes(2, "little")
                if n >= 76 and rng.random() < 0.5:
                    b[74:76] = bytes.fromhex(rng.choice(list(CODES.values())))
                dg.append({"do": "dgram", "p": PORTS[0], "d": {"t": "raw", "b": list(b)}})
        for typ in TYPES:
            base = rdev(rng, typ)
            for delta in (-1, 1, 2, 5):           # a real broadcast padded / cut, with its length field corrected
                raw = bytearray(make_datagram(base))
                raw = raw[:delta] if delta < 0 else raw + bytes(delta)
                raw[2:4] = len(raw).to_bytes(2, "little")
                dg.append({"do": "dgram", "p": PORTS[0], "d": {"t": "raw", "b": list(raw)}})
            for cut in (1, 2, 3):
                dg.append({"do": "dgram", "p": PORTS[0], "d": {"t": "mutate", "of": base, "cut": cut}})
                dg.append({"do": "dgram", "p": PORTS[0], "d": {"t": "mutate", "of": base, "extend": cut, "seed": 3}})
            dg.append({"do": "dgram", "p": PORTS[0], "d": {"t": "mutate", "of": base, "set": [[0, 0xFF]]}})
            dg.append({"do": "dgram", "p": PORTS[0], "d": {"t": "mutate", "of": base, "set": [[1, 0xF1]]}})
            for extra in ([0x0A], [0x0D], [0x00], [0x0D, 0x0A], [0x0A, 0x0A]):      # a capture with a line ending or NUL appended
                dg.append({"do": "dgram", "p": PORTS[0], "d": {"t": "raw", "b": list(make_datagram(base)) + extra}})
            unk = dict(rdev(rng, typ), code=[0xAB, 0xCD])
            for _ in range(3):                                                        # the same unknown-model frame again and again
                dg.append({"do": "dgram", "p": PORTS[0], "d": unk})
            dg.append({"do": "dgram", "p": PORTS[1], "d": unk})
        for n in (159, 160, 165, 166, 168, 169):
            for last in (0x0A, 0x0D, 0x00):
                b = [0xFE, 0xF0] + list(rng.randbytes(n - 3)) + [last]
                dg.append({"do": "dgram", "p": PORTS[0], "d": {"t": "raw", "b": b}})
        codes = set()
        if ctx.quick:
            for kc in known_codes():
                v = int.from_bytes(kc, "big")
                for i in range(16):
                    codes.add(v ^ (1 << i))
                    for j in range(i + 1, 16):
                        codes.add(v ^ (1 << i) ^ (1 << j))
            codes |= {0, 0xFFFF, 0x0E00, 0x010E, 0x0C03, 0x0100}
            codes |= {rng.randrange(65536) for _ in range(1500)}
        else:
            codes = set(range(65536))
        fams = [("heater", "V4"), ("thermo", "BREEZE"), ("shutter", "RUNNER")]
        for c in sorted(codes):
            for fam, typ in (fams if not ctx.quick else [fams[c % 3]]):
                d = rdev(rng, typ)
                d["code"] = [c >> 8, c & 0xFF]
                dg.append({"do": "dgram", "p": PORTS[c % 4], "d": d})
        out = []
        for k in range(0, len(dg), 150):
            out.append(wrap(PORTS, dg[k:k + 150]))
        # "quietly" also in an interpreter that warns about (-b), or refuses (-bb), str() of a bytes object
        for n, sc in enumerate(list(out[: ctx.pick(2, 6)])):
            out.append(dict(sc, pyflags=["-b"] if n % 2 == 0 else ["-bb"]))
        return out

    def owns(self, clause):
        return clause.startswith("C06:")


class C07(BridgeProp):
    id = "C07"
    title = "each valid broadcast is delivered once, in order, whatever else arrives"
    rule = ("datagram sequences over the alphabet {valid broadcast of each family, verbatim repeat of the previous datagram, "
            "foreign, truncated, bit-flipped, unknown model, undecodable field} x 1..4 ports x callbacks that raise on chosen "
            "invocations x cross-port interleavings; every callback invocation is attributed to the datagram being processed. "
            "distinct = distinct events; non-trivial = datagram events")

    def mc_runs(self, ctx):
        return [{"module": "MC_Bridge", "cfg": ctx.pick("MC_Bridge.cfg", "MC_BridgeDeep.cfg"), "coverage": ctx.quick,
                 "need_actions": ("Receive", "Send", "Stop", "StartPort") if ctx.quick else ()}, {"module": "MC_Datagram"}]

    def scenarios(self, ctx: Ctx):
        rng = ctx.rng
        out = []
        for _ in range(ctx.pick(150, 3000)):
            nports = rng.randrange(1, 5)
            ports = PORTS[:nports]
            dg = []
            prev = None
            for _ in range(rng.randrange(5, 65)):
                k = rng.random()
                p = rng.choice(ports)
                if k < 0.45 or prev is None:
                    d = rdev(rng)
                elif k < 0.55:
                    d = prev                                   # verbatim repeat
                elif k < 0.65:
                    d = {"t": "random", "n": rng.choice([0, 1, 10, 159, 165, 168, 200]), "magic": rng.choice(["no", "yes", "near"]),
                         "seed": rng.randrange(1 << 30)}
                elif k < 0.72:
                    d = {"t": "mutate", "of": rdev(rng), "cut": rng.randrange(1, 40)}
                elif k < 0.82:
                    base = rdev(rng)
                    off = rng.choice([74, 75, 133, 137, 138, 140, 147, 150, 158, 42, 50, 135, 136])
                    d = {"t": "mutate", "of": base, "set": [[off, rng.randrange(256)]]}
                elif k < 0.9:
                    d = rdev(rng)
                    d["code"] = [rng.randrange(256), rng.randrange(256)]
                else:
                    d = rdev(rng, name=rng.choice([[0xFF, 0xFE, 0x41], cut_name(rng)]))     # undecodable name
                prev = d
                dg.append({"do": "dgram", "p": p, "d": d, "cbraise": rng.choice(KINDS) if rng.random() < 0.2 else False})
            out.append(wrap(ports, with_gaps(rng, dg, every=rng.choice([1, 2, 5])) if len(out) % 3 == 1 else dg))
        # bursts: several datagrams reach the sockets in the same loop iteration (also across ports), some callbacks raise,
        # some datagrams cannot be decoded; every delivery is attributed by the device id the harness put into the datagram
        for _ in range(ctx.pick(150, 3000)):
            nports = rng.randrange(1, 5)
            ports = PORTS[:nports]
            steps = [{"do": "start"}]
            for _b in range(rng.randrange(1, 4)):
                items = []
                for _i in range(rng.randrange(2, 7)):
                    k = rng.random()
                    if k < 0.6:
                        d = rdev(rng)
                    elif k < 0.75:
                        d = rdev(rng, name=[0xFF, 0xFE, 0x41])                      # undecodable name: the parser raises
                    elif k < 0.85:
                        d = {"t": "mutate", "of": rdev(rng), "set": [[rng.choice([0, 1]), rng.choice([0, 0x7E, 0xFF, 0xF1])]]}   # magic destroyed
                    elif k < 0.93:
                        d = rdev(rng)
                        d["code"] = [rng.randrange(256), rng.randrange(256)]
                    else:
                        d = {"t": "random", "n": rng.choice([0, 3, 159, 165, 168]), "magic": "no", "seed": rng.randrange(1 << 30)}
                    items.append({"p": rng.choice(ports), "d": d, "cbraise": rng.choice(KINDS) if rng.random() < 0.3 else False})
                steps.append({"do": "burst", "items": items, "yields": rng.choice([2, 3, 5])})
                steps.append({"do": "dgram", "p": rng.choice(ports), "d": rdev(rng), "cbraise": False})
            steps += [{"do": "stop"}, {"do": "cycle"}]
            out.append({"ports": ports, "steps": steps})
        # a start that failed (a later port was taken) and was retried, a bridge restarted, a second bridge object that failed to
        # start on the same ports and was stopped, a late stop() of an old bridge object: deliveries must be unaffected
        for _ in range(ctx.pick(60, 1500)):
            nports = rng.randrange(2, 5)
            ports = PORTS[:nports]
            taken = rng.choice(ports[1:])
            pre = rng.choice([
                [{"do": "occupy", "p": taken}, {"do": "start"}, {"do": "free", "p": taken}, {"do": "cycle"}, {"do": "start"}],
                [{"do": "start"}, {"do": "stop"}, {"do": "cycle"}, {"do": "start"}],
                [{"do": "start"}, {"do": "start", "br": 2}, {"do": "stop", "br": 2}, {"do": "cycle"}],
                [{"do": "start", "br": 2}, {"do": "stop", "br": 2}, {"do": "cycle"}, {"do": "start"}, {"do": "stop", "br": 2}, {"do": "cycle"}],
                # the second bridge object is never stopped by its owner: its failed start must have left nothing behind that
                # hears (or takes away) the first bridge's broadcasts
                [{"do": "start"}, {"do": "start", "br": 2}, {"do": "cycle"}],
                [{"do": "start"}, {"do": "start", "br": 2}],
            ])
            dg = [{"do": "dgram", "p": rng.choice(ports), "d": rdev(rng), "cbraise": rng.random() < 0.15} for _ in range(rng.randrange(3, 12))]
            out.append({"ports": ports, "ports2": ports[: rng.randrange(1, nports + 1)], "steps": pre + dg + [{"do": "stop"}, {"do": "cycle"}]})
        # an error the OS reports on a listening socket (ICMP unreachable, network down: asyncio calls error_received) is one
        # more thing that "arrives": deliveries go on, on that port and every other
        for _ in range(ctx.pick(40, 600)):
            ports = PORTS[:rng.randrange(1, 4)]
            dg = []
            for _i in range(rng.randrange(3, 10)):
                dg.append({"do": "dgram", "p": rng.choice(ports), "d": rdev(rng), "cbraise": rng.choice(KINDS) if rng.random() < 0.1 else False})
                if rng.random() < 0.5:
                    dg.append({"do": "neterr", "p": rng.choice(ports), "exc": rng.random() < 0.7})
            out.append(wrap(ports, dg))
        # every family x every way a user's callback can fail (the exception types a parser may also catch for itself):
        # once per broadcast, and the next broadcast is delivered as if nothing had happened
        for kind in KINDS:
            dg = []
            for typ in TYPES:
                dg.append({"do": "dgram", "p": rng.choice(PORTS[:2]), "d": rdev(rng, typ), "cbraise": kind})
                dg.append({"do": "dgram", "p": rng.choice(PORTS[:2]), "d": rdev(rng, typ), "cbraise": False})
            out.append(wrap(PORTS[:2], dg))
        # valid broadcasts whose magic bytes are damaged must not reach the callback
        dg = []
        for typ in TYPES:
            for off, val in ((0, 0xFF), (0, 0x7E), (1, 0xF1), (1, 0x00), (0, 0x00)):
                dg.append({"do": "dgram", "p": PORTS[0], "d": {"t": "mutate", "of": rdev(rng, typ), "set": [[off, val]]}})
        out.append(wrap(PORTS, dg))
        return out

    def owns(self, clause):
        return clause.startswith("C07:")

    def replay_phase(self, ctx):
        return bridge_replay(ctx, {"delivered-port"})


ALPHA2 = ["start", "stop", "cycle", "occ1", "occ2", "free1", "free2", "send1", "send2"]


def life_steps(rng, ports, word):
    steps = []
    for a in word:
        if a == "start":
            steps.append({"do": rng.choice(["start", "start", "enter"])})
        elif a == "stop":
            steps.append({"do": rng.choice(["stop", "stop", "leave", "leave-exc"])})
        elif a == "cycle":
            steps.append({"do": "cycle"})
        elif a.startswith("occ"):
            steps.append({"do": "occupy", "p": ports[int(a[3:]) - 1]})
        elif a.startswith("free"):
            steps.append({"do": "free", "p": ports[int(a[4:]) - 1]})
        elif a.startswith("send"):
            steps.append({"do": "dgram", "p": ports[int(a[4:]) - 1], "d": rdev(rng), "cbraise": False})
    return steps


class C17(BridgeProp):
    id = "C17"
    title = "the bridge listens exactly while running and leaves nothing behind"
    rule = ("all action sequences up to a bound over {start / enter, stop / leave / leave through an exception, loop cycle, "
            "occupy port i, release port i, send a valid broadcast to port i} (quick: every word of length <= 4 over 2 ports; "
            "thorough: length <= 5 plus seeded random words of length <= 10 over 1..4 ports); after every action the running "
            "flag, the set of ports that take datagrams and the set of ports that can be bound again are observed. "
            "distinct = distinct events; non-trivial = observations, datagrams, start/stop outcomes")
    assumptions = BridgeProp.base_assumptions + [
        "start() while already running (not in the statement's alphabet): nothing may change; whether it raises is left open",
        "port release is observed on the virtual network (an endpoint closed by the bridge leaves the port table one loop cycle later, "
        "as asyncio's selector transport does); a loopback portion with real sockets is part of the thorough tier",
    ]

    def mc_runs(self, ctx):
        return [{"module": "MC_Bridge", "cfg": ctx.pick("MC_Bridge.cfg", "MC_BridgeDeep.cfg"), "coverage": ctx.quick,
                 "need_actions": ("StartPort", "StartDone", "Stop", "Cycle", "Occupy", "Free", "Receive") if ctx.quick else ()},
                # several bridge objects on one host, overlapping port lists, starts cancelled between two binds
                {"module": "MC_Bridges", "cfg": ctx.pick("MC_Bridges.cfg", "MC_BridgesDeep.cfg"), "coverage": ctx.quick,
                 "need_actions": ("StartPort", "StartDone", "StartCancelled", "Stop", "Cycle", "Occupy", "Free") if ctx.quick else ()},
                {"module": "MC_Bridges", "cfg": "MC_BridgesShared.cfg", "expect_violation": "Isolation", "workers": 2}]

    def scenarios(self, ctx: Ctx):
        rng = ctx.rng
        out = []
        ports = PORTS[:2]
        for n in range(1, ctx.pick(4, 5) + 1):
            for word in itertools.product(ALPHA2, repeat=n):
                if word[0] in ("cycle", "free1", "free2"):
                    continue
                out.append({"ports": ports, "steps": life_steps(rng, ports, word)})
        for _ in range(ctx.pick(300, 4000)):
            np_ = rng.randrange(1, 5)
            ps = PORTS[:np_]
            alpha = ["start", "start", "stop", "stop", "cycle"] + [f"occ{k + 1}" for k in range(np_)] + [f"free{k + 1}" for k in range(np_)] \
                + [f"send{k + 1}" for k in range(np_)] * 2
            word = [rng.choice(alpha) for _ in range(rng.randrange(3, 11))]
            out.append({"ports": ps, "steps": life_steps(rng, ps, word)})
        # "a stopped bridge can be started again" - also by the program's next asyncio.run(): the same bridge object under another
        # event loop, the old one closed (as run() does) or still open; after a clean stop, after a failed start, twice in a row
        for np_ in (1, 2, 4):
            ps = PORTS[:np_]
            dgm = lambda: {"do": "dgram", "p": rng.choice(ps), "d": rdev(rng), "cbraise": False}      # noqa: E731
            for close in (True, False):
                nl = {"do": "newloop", "close": close}
                for a, b in (("start", "stop"), ("enter", "leave"), ("enter", "leave-exc")):
                    out.append({"ports": ps, "steps": [{"do": a}, dgm(), {"do": b}, {"do": "cycle"}, nl, {"do": a}, dgm(), {"do": b}, {"do": "cycle"}]})
                out.append({"ports": ps, "steps": [{"do": "start"}, {"do": "stop"}, {"do": "cycle"}, nl, {"do": "start"}, dgm(), {"do": "stop"}, {"do": "cycle"},
                                                    dict(nl), {"do": "stop"}, {"do": "start"}, dgm(), dgm(), {"do": "stop"}, {"do": "cycle"}]})
                out.append({"ports": ps, "steps": [{"do": "occupy", "p": ps[-1]}, {"do": "start"}, {"do": "free", "p": ps[-1]}, {"do": "cycle"}, nl,
                                                    {"do": "start"}, dgm(), {"do": "stop"}, {"do": "cycle"}]})
                out.append({"ports": ps, "steps": [nl, {"do": "stop"}, {"do": "start"}, dgm(), {"do": "stop"}, {"do": "cycle"}]})
        # the OS reports an error on one of the sockets while the bridge runs: it keeps running AND listening (a transport closed
        # "to be safe" leaves a bridge that says it runs and hears nothing)
        for _ in range(ctx.pick(40, 600)):
            ps = PORTS[:rng.randrange(1, 4)]
            steps = [{"do": "start"}]
            for _i in range(rng.randrange(1, 5)):
                steps.append({"do": "neterr", "p": rng.choice(ps), "exc": rng.random() < 0.7})
                if rng.random() < 0.7:
                    steps.append({"do": "dgram", "p": rng.choice(ps), "d": rdev(rng), "cbraise": False})
            steps += [{"do": "stop"}, {"do": "cycle"}]
            if rng.random() < 0.4:
                steps += [{"do": "start"}, {"do": "dgram", "p": rng.choice(ps), "d": rdev(rng), "cbraise": False}, {"do": "stop"}, {"do": "cycle"}]
            out.append({"ports": ps, "steps": steps})
        # stop() racing with datagrams that are already on their way: nothing may reach the callback once stop has returned
        for _ in range(ctx.pick(200, 3000)):
            np_ = rng.randrange(1, 4)
            ps = PORTS[:np_]
            steps = [{"do": "start"}]
            if rng.random() < 0.5:
                steps.append({"do": "dgram", "p": rng.choice(ps), "d": rdev(rng), "cbraise": False})
            items = [{"p": rng.choice(ps), "d": rdev(rng), "cbraise": rng.random() < 0.15} for _ in range(rng.randrange(1, 5))]
            steps.append({"do": "burst", "items": items, "yields": rng.choice([0, 1, 2, 3]), "then": "stop"})
            steps += [{"do": "cycle"}]
            if rng.random() < 0.5:
                steps += [{"do": "start"}, {"do": "dgram", "p": rng.choice(ps), "d": rdev(rng), "cbraise": False}, {"do": "stop"}, {"do": "cycle"}]
            out.append({"ports": ps, "steps": steps})
        # the user's callback stops the bridge ("found my device"): the bridge is stopped, later broadcasts reach nobody, restart works
        for _ in range(ctx.pick(40, 600)):
            np_ = rng.randrange(1, 4)
            ps = PORTS[:np_]
            steps = [{"do": "start"}]
            if rng.random() < 0.5:
                steps.append({"do": "dgram", "p": rng.choice(ps), "d": rdev(rng), "cbraise": False})
            steps.append({"do": "dgram", "p": rng.choice(ps), "d": rdev(rng), "cbraise": rng.random() < 0.2, "cbstop": True})
            steps.append({"do": "dgram", "p": rng.choice(ps), "d": rdev(rng), "cbraise": False})
            steps += [{"do": "cycle"}, {"do": "start"}, {"do": "dgram", "p": rng.choice(ps), "d": rdev(rng), "cbraise": False}, {"do": "stop"}, {"do": "cycle"}]
            out.append({"ports": ps, "steps": steps})
        # start() cancelled after k loop cycles (task cancellation, a timeout): stop() must still release what it had opened
        for nports in (1, 2, 3, 4):
            for k in range(0, nports + 2):
                ps = PORTS[:nports]
                for tail in ([{"do": "stop"}, {"do": "cycle"}], [{"do": "dgram", "p": ps[0], "d": rdev(rng), "cbraise": False}, {"do": "stop"}, {"do": "cycle"}, {"do": "start"}, {"do": "stop"}, {"do": "cycle"}]):
                    out.append({"ports": ps, "steps": [{"do": "start-cancelled", "k": k}] + tail})
        # a port number that cannot be bound at all (the bind fails with an error that is not an OSError), listed after good ones
        for badp in (70000, 65536, -1, 100000):
            for ps in ([PORTS[0], badp], [PORTS[0], PORTS[1], badp], [badp, PORTS[0]], [PORTS[0], badp, PORTS[1]]):
                out.append({"ports": ps, "steps": [{"do": "start"}, {"do": "dgram", "p": PORTS[0], "d": rdev(rng), "cbraise": False}, {"do": "cycle"},
                                                   {"do": "start"}, {"do": "stop"}, {"do": "cycle"}]})
        # two bridge objects on overlapping ports: what one of them does must not touch the other's sockets
        two = ["start1", "start2", "stop1", "stop2", "cycle", "send1", "send2"]
        for n in range(2, ctx.pick(4, 5) + 1):
            for word in itertools.product(two, repeat=n):
                if not any(w.startswith("start") for w in word):
                    continue
                steps = []
                for a in word:
                    if a.startswith("start"):
                        steps.append({"do": "start", "br": int(a[5])})
                    elif a.startswith("stop"):
                        steps.append({"do": "stop", "br": int(a[4])})
                    elif a == "cycle":
                        steps.append({"do": "cycle"})
                    else:
                        steps.append({"do": "dgram", "p": PORTS[int(a[4]) - 1], "d": rdev(rng), "cbraise": False})
                out.append({"ports": PORTS[:2], "ports2": rng.choice([PORTS[:2], PORTS[1:2], PORTS[:1], PORTS[1:3]]), "steps": steps})
        # a port listed twice, and an empty port list
        out.append({"ports": [PORTS[0], PORTS[0]], "steps": life_steps(rng, [PORTS[0]], ["start", "send1", "stop", "cycle", "send1"])})
        out.append({"ports": [], "steps": [{"do": "start"}, {"do": "stop"}]})
        return out

    def owns(self, clause):
        return clause.startswith("C17:")

    def replay_phase(self, ctx):
        return bridge_replay(ctx, {"running-flag", "listening-ports", "ports-being-released", "start-raised"})

    def extra_coverage(self, ctx):
        # unbounded in time (for three ports): the life-cycle design satisfies RunningIffListening / NothingLeftBehind in EVERY
        # reachable state, by an inductive invariant discharged with Apalache (spec/apalache/BridgeLife.tla)
        from .. import tlc
        r = tlc.apalache_inductive(str(tlc.SPEC / "apalache" / "BridgeLife.tla"), "Init", "IndInit", "IndInv",
                                   ["RunningIffListening", "NothingLeftBehind"])
        print(f"   Apalache: inductive invariant of the bridge life cycle discharged ({len(r['obligations'])} obligations, {r['wall_s']} s)", flush=True)
        return {"inductive_invariant": r}


P05, P06, P07, P17 = C05(), C06(), C07(), C17()
