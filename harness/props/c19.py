"""C19 - device types, categories, classes and ports are mutually consistent (Catalog.tla)."""
from __future__ import annotations

from ..clock import text
from ..core import Ctx, Prop


class C19(Prop):
    id = "C19"
    title = "device types, categories, classes and ports are mutually consistent"
    trace_module = "Trace_Catalog"
    exhaustive = True
    rule = ("complete: the live DeviceType members, every (device class x device type) construction attempted, both port "
            "tables dumped; one catalogue event judged by Catalog!Violations, one catalogue per device state (the guards must not "
            "depend on it), nine catalogues from fresh interpreters with different import orders of the library's modules and six "
            "from interpreters started with -O / -OO (assert statements stripped). "
            "non-trivial = every catalogue (each holds all 36 constructions)")
    assumptions = [
        "which category a device class is 'for' is taken from its public name (SwitcherPowerPlug -> POWER_PLUG, "
        "SwitcherWaterHeater -> WATER_HEATER, SwitcherThermostat -> THERMOSTAT, SwitcherShutter -> SHUTTER)",
        "the laws are stated over the observed table, so adding a consistent new type is not an alarm",
    ]

    def mc_runs(self, ctx):
        return [{"module": "MC_Catalog"}]

    def scenarios(self, ctx: Ctx):
        out = [{"state": "ON", "order": []}, {"state": "OFF", "order": []}, {"state": "ON", "order": ["USE"]}]
        # the tables must not depend on which part of the library was imported first: fresh interpreters, several import orders
        for order in (["bridge", "api"], ["api", "bridge"], ["device", "bridge", "api"], ["api", "device", "schedule", "bridge"], ["schedule", "bridge"],
                      ["bridge", "STIR", "api"], ["STIR"], ["USE"], ["api", "USE", "STIR"]):
            out.append({"state": "ON", "order": order, "fresh": True})
        # ... nor on how the interpreter was started: `python -O` / `-OO` (PYTHONOPTIMIZE in a container image) strip every
        # `assert` statement together with whatever it calls
        for opt in (1, 2):
            for order in ([], ["api", "bridge"], ["USE"]):
                out.append({"state": "ON", "order": order, "fresh": True, "opt": opt})
        # what the clients do with the port tables: the port each API class dials, over histories of accepted / refused connects
        hists = [["ok"], ["refused", "ok"], ["refused", "refused", "ok"], ["ok", "disc", "ok"], ["ok", "disc", "refused", "ok"],
                 ["refused", "disc", "ok"], ["ok", "op", "disc", "refused", "refused", "ok", "op"], ["refused", "ok", "disc", "ok"]]
        for api in (1, 2):
            for h in hists:
                out.append({"kind": "dial", "api": api, "hist": h})
        return out

    def execute(self, scn):
        if scn.get("kind") == "dial":
            return [self._dial(scn)]
        import json
        import subprocess
        import sys
        from ..catalogdump import dump
        if scn.get("fresh"):
            p = subprocess.run([sys.executable] + (["-" + "O" * scn["opt"]] if scn.get("opt") else []) + ["-m", "harness.catalogdump", scn["state"], ",".join(scn["order"])], capture_output=True, text=True, timeout=120)
            if p.returncode != 0:
                from ..tlc import Machinery
                raise Machinery("catalogue dump failed in a fresh interpreter: " + p.stderr[-300:])
            cat = json.loads(p.stdout.strip().splitlines()[-1])
        else:
            cat = dump(scn["state"], scn["order"])
        return [{"ev": "Catalog", "state": scn["state"], "order": scn["order"], "c": cat}]


    @staticmethod
    def _dial(scn):
        import asyncio
        from .. import vnet
        net = vnet.VNet()
        loop = vnet.VLoop(net)
        host = "10.9.8.7"

        def answer(conn, data):
            conn.loop.call_soon(conn.feed, bytes(range(60)))
        net.on_write_hook = answer

        async def main():
            from aioswitcher.api import SwitcherType1Api, SwitcherType2Api
            api = (SwitcherType1Api if scn["api"] == 1 else SwitcherType2Api)(host, "ab1234", "18")
            attempts = 0
            for step in scn["hist"]:
                for port in (9957, 10000):           # both control ports answer alike: the client's own choice is what is observed
                    net.listen(host, port, step != "refused")
                try:
                    if step in ("ok", "refused"):
                        attempts += 1
                        await api.connect()
                    elif step == "disc":
                        await api.disconnect()
                    elif step == "op":
                        await (api.get_state() if scn["api"] == 1 else api.get_shutter_state())
                except Exception:  # noqa: BLE001 - refusals and whatever an operation makes of the canned reply: only the dialled ports are judged
                    pass
            try:
                await api.disconnect()
            except Exception:  # noqa: BLE001
                pass
            return attempts
        try:
            attempts = loop.run_until_complete(main())
        finally:
            loop.close()
        return {"ev": "Dial", "api": scn["api"], "hist": scn["hist"], "attempts": attempts, "ports": [p for _, p in net.dials]}


PROP = C19()
