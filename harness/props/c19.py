"""C19 - device types, categories, classes and ports are mutually consistent (Catalog.tla)."""
from __future__ import annotations

from ..clock import text
from ..core import Ctx, Prop


class C19(Prop):
    id = "C19"
    title = "device types, categories, classes and ports are mutually consistent"
    trace_module = "Trace_Catalog"
    exhaustive = True
    rule = ("complete: the live DeviceType members, every (device class x device type) construction attempted, both port "
            "tables dumped; one catalogue event judged by Catalog!Violations, one catalogue per device state (the guards must not "
            "depend on it) and five catalogues from fresh interpreters with different import orders of the library's modules. "
            "non-trivial = every catalogue (each holds all 36 constructions)")
    assumptions = [
        "which category a device class is 'for' is taken from its public name (SwitcherPowerPlug -> POWER_PLUG, "
        "SwitcherWaterHeater -> WATER_HEATER, SwitcherThermostat -> THERMOSTAT, SwitcherShutter -> SHUTTER)",
        "the laws are stated over the observed table, so adding a consistent new type is not an alarm",
    ]

    def mc_runs(self, ctx):
        return [{"module": "MC_Catalog"}]

    def scenarios(self, ctx: Ctx):
        out = [{"state": "ON", "order": []}, {"state": "OFF", "order": []}]
        # the tables must not depend on which part of the library was imported first: fresh interpreters, several import orders
        for order in (["bridge", "api"], ["api", "bridge"], ["device", "bridge", "api"], ["api", "device", "schedule", "bridge"], ["schedule", "bridge"],
                      ["bridge", "STIR", "api"], ["STIR"]):
            out.append({"state": "ON", "order": order, "fresh": True})
        return out

    def execute(self, scn):
        import json
        import subprocess
        import sys
        from ..catalogdump import dump
        if scn.get("fresh"):
            p = subprocess.run([sys.executable, "-m", "harness.catalogdump", scn["state"], ",".join(scn["order"])], capture_output=True, text=True, timeout=120)
            if p.returncode != 0:
                from ..tlc import Machinery
                raise Machinery("catalogue dump failed in a fresh interpreter: " + p.stderr[-300:])
            cat = json.loads(p.stdout.strip().splitlines()[-1])
        else:
            cat = dump(scn["state"], scn["order"])
        return [{"ev": "Catalog", "state": scn["state"], "order": scn["order"], "c": cat}]


PROP = C19()
