"""C19 - device types, categories, classes and ports are mutually consistent (Catalog.tla)."""
from __future__ import annotations

from ..clock import text
from ..core import Ctx, Prop


class C19(Prop):
    id = "C19"
    title = "device types, categories, classes and ports are mutually consistent"
    trace_module = "Trace_Catalog"
    exhaustive = True
    rule = ("complete: the live DeviceType members, every (device class x device type) construction attempted, both port "
            "tables dumped; one catalogue event judged by Catalog!Violations, plus one catalogue per device state to "
            "show the guards do not depend on it. non-trivial = every catalogue (each holds all 36 constructions)")
    assumptions = [
        "which category a device class is 'for' is taken from its public name (SwitcherPowerPlug -> POWER_PLUG, "
        "SwitcherWaterHeater -> WATER_HEATER, SwitcherThermostat -> THERMOSTAT, SwitcherShutter -> SHUTTER)",
        "the laws are stated over the observed table, so adding a consistent new type is not an alarm",
    ]

    def mc_runs(self, ctx):
        return [{"module": "MC_Catalog"}]

    def scenarios(self, ctx: Ctx):
        return [{"state": "ON"}, {"state": "OFF"}]

    def execute(self, scn):
        from aioswitcher import api, bridge, device
        from aioswitcher.device import (DeviceCategory, DeviceState, DeviceType, ShutterDirection, SwitcherPowerPlug,
                                         SwitcherShutter, SwitcherThermostat, SwitcherWaterHeater, ThermostatFanLevel,
                                         ThermostatMode, ThermostatSwing)
        st = DeviceState[scn["state"]]
        types = list(DeviceType)
        tl = [{"name": t.name, "code": text(t.hex_rep), "ptype": t.protocol_type, "cat": t.category.name} for t in types]
        base = ("ab1234", "18", "10.0.0.7", "12:A1:A2:1A:BC:1A", "dev")
        makers = {
            "POWER_PLUG": lambda t: SwitcherPowerPlug(t, st, *base, 10, 0.1),
            "WATER_HEATER": lambda t: SwitcherWaterHeater(t, st, *base, 10, 0.1, "00:10:00", "01:00:00"),
            "THERMOSTAT": lambda t: SwitcherThermostat(t, st, *base, ThermostatMode.COOL, 24.5, 23, ThermostatFanLevel.LOW,
                                                       ThermostatSwing.OFF, "ELEC7022"),
            "SHUTTER": lambda t: SwitcherShutter(t, st, *base, 50, ShutterDirection.SHUTTER_STOP),
        }
        accepts = []
        for own, mk in makers.items():
            for k, t in enumerate(types):
                try:
                    obj = mk(t)
                    ok = obj.device_type is t
                    exc = None
                except Exception as x:  # noqa: BLE001 - any refusal counts as "refused"
                    ok, exc = False, type(x).__name__
                accepts.append({"own": own, "type": k + 1, "ok": ok, "exc": exc or ""})
        cat = {
            "types": tl,
            "cats": [c.name for c in DeviceCategory],
            "accepts": accepts,
            "udp": [{"cat": c.name, "port": p} for c, p in bridge.SWITCHER_DEVICE_TO_UDP_PORT.items()],
            "tcp": [{"cat": c.name, "port": p} for c, p in api.SWITCHER_DEVICE_TO_TCP_PORT.items()],
        }
        return [{"ev": "Catalog", "state": scn["state"], "c": cat}]


PROP = C19()
