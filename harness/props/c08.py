from .client import P08 as PROP  # noqa: F401
