from .sched import P13 as PROP  # noqa: F401
