"""C18 - the TCP client is connected exactly between connect and disconnect (Client life cycle)."""
from __future__ import annotations

import itertools

from ..core import Ctx, Prop

# what may follow what: the alphabet of the statement, with the obvious well-formedness of a test program
# (operations and bodies only while connected; entering a context only while not inside one)
ACTIONS = ["connect", "refused", "enter", "enter-refused", "op-ok", "op-raises", "leave", "body-raises", "disconnect", "refused-while-connected"]


def words(n):
    """All action words of length n that a test program can execute (state: none/open/closed x in-context)."""
    out = []

    def rec(prefix, is_open, in_ctx):
        if len(prefix) == n:
            out.append(list(prefix))
            return
        for a in ACTIONS:
            if a in ("connect", "refused"):
                if is_open or in_ctx:
                    continue
                rec(prefix + [a], a == "connect", False)
            elif a in ("enter", "enter-refused"):
                if is_open or in_ctx:
                    continue
                rec(prefix + [a], a == "enter", a == "enter")
            elif a in ("op-ok", "op-raises", "refused-while-connected"):
                if not is_open:
                    continue
                rec(prefix + [a], True, in_ctx)
            elif a in ("leave", "body-raises"):
                if not in_ctx:
                    continue
                rec(prefix + [a], False, False)
            else:
                if in_ctx:
                    continue
                rec(prefix + [a], False, False)
    rec([], False, False)
    return out


def reset_words():
    out = []
    tails = [[], ["connect", "op-ok", "disconnect"], ["enter", "op-ok", "leave"], ["connect"], ["enter"],
             ["enter", "op-reset", "leave", "connect", "op-ok", "disconnect"], ["connect", "op-raises", "disconnect", "disconnect"]]
    for head, closes in ((["connect"], ["disconnect"]), (["enter"], ["leave", "body-raises", "disconnect"]),
                         (["connect", "op-ok"], ["disconnect"]), (["enter", "op-ok", "op-ok"], ["leave"]),
                         (["refused", "connect"], ["disconnect"]), (["connect", "disconnect", "enter"], ["leave"])):
        out.append(head + ["op-reset"])
        for c in closes:
            for t in tails:
                out.append(head + ["op-reset", c] + t)
    return out


class C18(Prop):
    id = "C18"
    title = "the TCP client is connected exactly between connect and disconnect"
    trace_module = "Trace_Client"
    rule = ("every executable action word up to length 5 (thorough: 7) over {connect, refused connect, enter, refused enter, "
            "successful operation, operation that raises, leaving the context, leaving it through an exception in the body, "
            "disconnect} for both API types on the virtual network, plus a seeded sample of the same words over real loopback "
            "TCP (real end-of-stream at the fake device, real refusal); `connected` is read after every action. "
            "distinct = distinct events; non-trivial = connect / disconnect / flag observations")
    assumptions = [
        "a SUCCESSFUL connect while already connected is outside the statement's alphabet; a refused one is in it (nothing may change)",
        "a refused connection is produced by closing the listening socket at the device's address for the duration of the call",
        "loopback portion: 127.x.y.z:9957/10000 private to this process; end-of-stream is awaited for at most 2 s",
    ]

    def mc_runs(self, ctx):
        return [{"module": "MC_ClientLife"}]

    def scenarios(self, ctx: Ctx):
        out = []
        maxlen = ctx.pick(5, 7)
        k = 0
        allw = []
        for n in range(1, maxlen + 1):
            allw += words(n)
        for api in (1, 2):
            for w in allw:
                k += 1
                out.append({"api": api, "mode": "virtual", "word": w, "seed": k})
        # the device resets the session in the middle of an operation (virtual: connection_lost(ConnectionResetError);
        # loopback: SO_LINGER 0 + close = a real RST)
        rs = reset_words()
        for api in (1, 2):
            for w in rs:
                k += 1
                out.append({"api": api, "mode": "virtual", "word": w, "seed": k})
        for n, w in enumerate(ctx.pick(rs[::3], rs)):
            out.append({"api": 1 + n % 2, "mode": "loopback", "word": w, "seed": 200000 + n})
        sample = ctx.rng.sample(allw, min(len(allw), ctx.pick(120, 1500)))
        for n, w in enumerate(sample):
            out.append({"api": 1 + n % 2, "mode": "loopback", "word": w, "seed": 100000 + n})
        return out

    def execute(self, scn):
        from ..lifedrive import run_scenario
        return run_scenario(scn)

    def owns(self, clause):
        return clause.startswith("C18:")

    def nontrivial(self, ev):
        return ev["ev"] in ("Connect", "Disc", "Flag")


PROP = C18()
