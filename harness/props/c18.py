"""C18 - the TCP client is connected exactly between connect and disconnect (Client life cycle)."""
from __future__ import annotations

import itertools

from ..core import Ctx, Prop

# what may follow what: the alphabet of the statement, with the obvious well-formedness of a test program
# (operations and bodies only while connected; entering a context only while not inside one)
ACTIONS = ["connect", "refused", "enter", "enter-refused", "op-ok", "op-raises", "leave", "body-raises", "disconnect", "refused-while-connected"]


def words(n, resets=False):
    """All action words of length n that a test program can execute (state: none/open/closed x in-context).
    resets=True: only the words in which the device resets the session at least once (state reset: only a disconnect of some
    kind may follow; state limbo after it: only a connect / enter that the device accepts)."""
    out = []

    def rec(prefix, st, in_ctx, seen):
        if len(prefix) == n:
            if seen == resets:
                out.append(list(prefix))
            return
        is_open = st == "open"
        for a in ACTIONS + (["op-reset"] if resets else []):
            if st == "reset" and a not in ("leave", "body-raises", "disconnect"):
                continue
            if st == "limbo" and a not in ("connect", "enter"):
                continue
            after_close = "limbo" if st == "reset" else "closed"
            if a in ("connect", "refused"):
                if is_open or in_ctx:
                    continue
                rec(prefix + [a], "open" if a == "connect" else st, False, seen)
            elif a in ("enter", "enter-refused"):
                if is_open or in_ctx:
                    continue
                rec(prefix + [a], "open" if a == "enter" else st, a == "enter", seen)
            elif a in ("op-ok", "op-raises", "refused-while-connected"):
                if not is_open:
                    continue
                rec(prefix + [a], st, in_ctx, seen)
            elif a == "op-reset":
                if not is_open:
                    continue
                rec(prefix + [a], "reset", in_ctx, True)
            elif a in ("leave", "body-raises"):
                if not in_ctx:
                    continue
                rec(prefix + [a], after_close, False, seen)
            else:
                if in_ctx:
                    continue
                rec(prefix + [a], after_close, False, seen)
    rec([], "none", False, False)
    return out


def reset_words():
    out = []
    tails = [[], ["connect", "op-ok", "disconnect"], ["enter", "op-ok", "leave"], ["connect"], ["enter"],
             ["enter", "op-reset", "leave", "connect", "op-ok", "disconnect"], ["connect", "op-raises", "disconnect", "disconnect"]]
    for head, closes in ((["connect"], ["disconnect"]), (["enter"], ["leave", "body-raises", "disconnect"]),
                         (["connect", "op-ok"], ["disconnect"]), (["enter", "op-ok", "op-ok"], ["leave"]),
                         (["refused", "connect"], ["disconnect"]), (["connect", "disconnect", "enter"], ["leave"])):
        out.append(head + ["op-reset"])
        for c in closes:
            for t in tails:
                out.append(head + ["op-reset", c] + t)
    return out


class C18(Prop):
    id = "C18"
    title = "the TCP client is connected exactly between connect and disconnect"
    trace_module = "Trace_Client"
    rule = ("every executable action word up to length 5 (thorough: 7) over {connect, refused connect, enter, refused enter, "
            "successful operation, operation that raises, leaving the context, leaving it through an exception in the body, "
            "disconnect} for both API types on the virtual network, plus a seeded sample of the same words over real loopback "
            "TCP (real end-of-stream at the fake device, real refusal); every executable word up to length 5 (6) in which the device "
            "RESETS the session in the middle of an operation (virtual: connection_lost(ConnectionResetError); a seventh (third) of "
            "them over loopback with a real RST); `connected`, and whether the device has seen the end of the stream, are read "
            "after every action; a successful connect must show up in the device's accept count. "
            "distinct = distinct events; non-trivial = connect / disconnect / flag observations")
    assumptions = [
        "a SUCCESSFUL connect while already connected is outside the statement's alphabet; a refused one is in it (nothing may change)",
        "disconnecting a session the device has reset is outside the statement (the pinned library raises from wait_closed() and keeps the flag): not judged, and `connected` is open until the next successful connect",
        "a refused connection is produced by closing the listening socket at the device's address for the duration of the call",
        "loopback portion: 127.x.y.z:9957/10000 private to this process; end-of-stream is awaited for at most 2 s",
    ]

    def mc_runs(self, ctx):
        return [{"module": "MC_ClientLife"}]

    def scenarios(self, ctx: Ctx):
        out = []
        maxlen = ctx.pick(5, 7)
        k = 0
        allw = []
        for n in range(1, maxlen + 1):
            allw += words(n)
        for api in (1, 2):
            for w in allw:
                k += 1
                out.append({"api": api, "mode": "virtual", "word": w, "seed": k})
        # the device resets the session in the middle of an operation (virtual: connection_lost(ConnectionResetError);
        # loopback: SO_LINGER 0 + close = a real RST)
        rs = reset_words()
        for n in range(2, ctx.pick(5, 6) + 1):          # ... and every executable word with a reset in it, up to that length
            rs += [w for w in words(n, resets=True) if w not in rs]
        for api in (1, 2):
            for w in rs:
                k += 1
                out.append({"api": api, "mode": "virtual", "word": w, "seed": k})
        for n, w in enumerate(ctx.pick(rs[::7], rs[::3])):
            out.append({"api": 1 + n % 2, "mode": "loopback", "word": w, "seed": 200000 + n})
        sample = ctx.rng.sample(allw, min(len(allw), ctx.pick(120, 1500)))
        for n, w in enumerate(sample):
            out.append({"api": 1 + n % 2, "mode": "loopback", "word": w, "seed": 100000 + n})
        return out

    def execute(self, scn):
        from ..lifedrive import run_scenario
        return run_scenario(scn)

    def owns(self, clause):
        return clause.startswith("C18:")

    def nontrivial(self, ev):
        return ev["ev"] in ("Connect", "Disc", "Flag")


PROP = C18()
