from .sched import P12 as PROP  # noqa: F401
