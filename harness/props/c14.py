from .sched import P14 as PROP  # noqa: F401
