"""C15 - the IR command built is the stored code that best matches the request (Remote.tla)."""
from __future__ import annotations

import json
import os
import random
import tempfile
from binascii import unhexlify

from ..core import Ctx, Prop
from ..irsets import gen_irset, spec_set, t


class C15(Prop):
    id = "C15"
    title = "the IR command built is the stored code that best matches the request"
    trace_module = "Trace_Remote"
    rule = ("generated IR sets (toggle / plain, separate-swing ids and ordinary ids, sparse and dense, code texts of 1..2000 "
            "bytes) loaded directly and through SwitcherBreezeRemoteManager from a temporary JSON file; per set the request "
            "product 2 x 5 x temperatures 0..60 x 4 x 2 x {none,on,off} (thorough: all 14,640; quick: boundary temperatures "
            "+ seeded sample), plus both swing commands. distinct = distinct events; non-trivial = the specification resolved "
            "the request to a stored code or to 'unsupported' (not an open region)")
    assumptions = [
        "requests whose whole key chain (exact, without swing, without fan level) is absent from the set are not constrained",
        "'byte length' of the payload = length of the whole payload including its four leading zero bytes",
        "IR set keys follow the vendor grammar [on_]<mode>[tt]_f<d>[_d1] | off | FUN_d0 | FUN_d1; per-mode feature sets are open",
    ]

    def mc_runs(self, ctx):
        return [{"module": "MC_Remote", "cfg": ctx.pick("MC_Remote.cfg", "MC_RemoteFull.cfg"), "timeout": 1500}]

    def scenarios(self, ctx: Ctx):
        n = ctx.pick(40, 300)
        out = []
        for k in range(n):
            out.append({"seed": ctx.rng.randrange(1 << 30), "long": k % 4 == 0, "via": "manager" if k % 2 else "direct",
                        "full": (not ctx.quick) and k % 15 == 0, "nreq": ctx.pick(400, 800),
                        "toggle": [True, False, None][k % 3], "special": [None, True, False, None][k % 4]})
        return out

    def execute(self, scn):
        from aioswitcher.api.remotes import SwitcherBreezeRemote, SwitcherBreezeRemoteManager
        from aioswitcher.device import DeviceState, ThermostatFanLevel, ThermostatMode, ThermostatSwing
        rng = random.Random(scn["seed"])
        ir = gen_irset(rng, toggle=scn["toggle"], special=scn["special"], long_codes=scn["long"])
        if scn["via"] == "manager":
            with tempfile.TemporaryDirectory(dir=os.environ.get("VERIF_WORK")) as td:
                p = os.path.join(td, "db.json")
                other = gen_irset(rng, small=True)
                other["IRSetID"] = "OTHER001"
                with open(p, "w") as f:
                    json.dump({other["IRSetID"]: other, ir["IRSetID"]: ir}, f)
                mgr = SwitcherBreezeRemoteManager(p)
                remote = mgr.get_remote(ir["IRSetID"])
                again = mgr.get_remote(ir["IRSetID"])
                assert again is remote or again.remote_id == remote.remote_id
        else:
            remote = SwitcherBreezeRemote(ir)
        modes = {m.value: n for n, m in ((1, ThermostatMode.AUTO), (2, ThermostatMode.DRY), (3, ThermostatMode.FAN),
                                         (4, ThermostatMode.COOL), (5, ThermostatMode.HEAT))}
        evs = [{"ev": "Load", "set": spec_set(ir), "via": scn["via"],
                "modes": sorted(modes[m.value] for m in remote.supported_modes),
                "min": remote.min_temperature, "max": remote.max_temperature,
                "toggle": bool(remote.on_off_type), "sep": bool(remote.separated_swing_command), "rid": t(remote.remote_id)}]
        M = {1: ThermostatMode.AUTO, 2: ThermostatMode.DRY, 3: ThermostatMode.FAN, 4: ThermostatMode.COOL, 5: ThermostatMode.HEAT}
        F = {0: ThermostatFanLevel.AUTO, 1: ThermostatFanLevel.LOW, 2: ThermostatFanLevel.MEDIUM, 3: ThermostatFanLevel.HIGH}
        S = {0: DeviceState.OFF, 1: DeviceState.ON}
        W = {0: ThermostatSwing.OFF, 1: ThermostatSwing.ON}
        reqs = []
        if scn["full"]:
            reqs = [(s, m, tt, f, w, p) for s in (0, 1) for m in range(1, 6) for tt in range(0, 61) for f in range(4)
                    for w in (0, 1) for p in (-1, 0, 1)]
        else:
            lo, hi = remote.min_temperature, remote.max_temperature
            edge = sorted({0, 9, 10, 60, max(0, min(60, lo - 1)), max(0, min(60, lo)), max(0, min(60, lo + 1)),
                           max(0, min(60, hi - 1)), max(0, min(60, hi)), max(0, min(60, hi + 1))})
            for s in (0, 1):
                for m in range(1, 6):
                    for p in (-1, 0, 1):
                        for tt in (edge if m in (4, 5) else [0, 24]):
                            f, w = rng.randrange(4), rng.randrange(2)
                            reqs.append((s, m, tt, f, w, p))
            while len(reqs) < scn["nreq"]:
                reqs.append((rng.randrange(2), rng.randrange(1, 6), rng.randrange(0, 61), rng.randrange(4), rng.randrange(2),
                             rng.choice((-1, 0, 1))))
        for (s, m, tt, f, w, p) in reqs:
            e = {"ev": "Build", "req": {"state": s, "mode": m, "temp": tt, "fan": f, "swing": w, "prev": p},
                 "outcome": "ok", "exc": "", "msg": [], "cmd": [], "lenhex": []}
            try:
                cmd = remote.build_command(S[s], M[m], tt, F[f], W[w], None if p == -1 else S[p])
                e["cmd"] = list(unhexlify(cmd.command))
                e["lenhex"] = t(str(cmd.length))
            except Exception as x:  # noqa: BLE001
                e["outcome"] = "error"
                e["exc"] = type(x).__name__
                e["msg"] = t(str(x).lower())[:400]          # naming is naming, in whatever case
            evs.append(e)
        for w in (0, 1):
            e = {"ev": "Swing", "swing": w, "outcome": "ok", "exc": "", "cmd": [], "lenhex": []}
            try:
                cmd = remote.build_swing_command(W[w])
                e["cmd"] = list(unhexlify(cmd.command))
                e["lenhex"] = t(str(cmd.length))
            except Exception as x:  # noqa: BLE001
                e["outcome"] = "error"
                e["exc"] = type(x).__name__
            evs.append(e)
        # the reported capabilities after all that use: still those of the set the remote was made from
        evs.append({"ev": "Load", "set": evs[0]["set"], "via": scn["via"] + "-after-use",
                    "modes": sorted(modes[m.value] for m in remote.supported_modes),
                    "min": remote.min_temperature, "max": remote.max_temperature,
                    "toggle": bool(remote.on_off_type), "sep": bool(remote.separated_swing_command), "rid": t(remote.remote_id)})
        return evs

    def nontrivial(self, ev):
        return ev["ev"] != "Build" or ev["outcome"] == "ok" or ev["exc"] == "RuntimeError"


PROP = C15()
