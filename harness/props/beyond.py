"""X01 X02 X03 - parts of the specification that no listed property claims.

They are judged by the same trace specifications as the listed properties (Trace_Client, Trace_Bridge); a disagreement is
reported as `DIVERGENCE spec=<id>` and never as a property violation.  They are not registered in MANIFEST.json; evidence
goes to /verif/beyond/.

X01  an operation the device type does not support is refused at once: NotImplementedError, nothing written, and the
     operations around it are unaffected (Client.tla: Supported)
X02  an error the OS reports on one of the bridge's sockets changes nothing: the bridge keeps listening, keeps reporting
     running and keeps delivering (Bridge.tla: AfterNetError)
X03  the display text of a listed schedule is the next-run text of its start time and days at the time of the listing
     (Trace_Client: DisplayFits = Schedule.tla NextRunK over LocalTime.tla)
"""
from __future__ import annotations

from ..core import Ctx
from ..clock import local_instant, zone_rules
from .bridge import BridgeProp, PORTS, rdev
from .client import (ClientProp, SECOND_OFFSETS, ZONES_ALL, ZONES_QUICK, ack, chunks, login, one, op1, sched_args)
from ..irsets import gen_irset


UNSUPPORTED = {
    1: ["get_breeze_state", "set_position", "control_breeze_device"],
    2: ["get_state", "control_device", "set_auto_shutdown", "set_device_name", "get_schedules", "delete_schedule", "create_schedule"],
}


class _X01(ClientProp):
    id = "X01"
    beyond = True
    title = "operations the device type does not support are refused at once and nothing is written"
    rule = ("every unsupported (client class, operation) pair placed at every position of short histories of supported "
            "operations; distinct = distinct events; non-trivial = returns")

    def mc_runs(self, ctx):
        return []

    def _args(self, rng, op):
        if op == "control_device":
            return {"on": rng.randrange(2), "minutes": rng.choice([0, 30])}
        if op == "set_auto_shutdown":
            return {"secs": 3600}
        if op == "set_device_name":
            return {"cps": [97, 98, 99]}
        if op == "delete_schedule":
            return {"slot": rng.randrange(8)}
        if op == "create_schedule":
            return sched_args(rng, "UTC", 1790553600, "ok")
        if op == "set_position":
            return {"pos": rng.randrange(101)}
        if op == "get_schedules":
            return {"zone": zone_rules("UTC", 1790553600)}
        if op == "control_breeze_device":
            return {"irset": gen_irset(rng, toggle=False, special=False, dense=True, small=True), "state": 1, "mode": 4, "temp": 24,
                    "fan": 1, "swing": 0, "update": False}
        return {}

    def scenarios(self, ctx: Ctx):
        rng = ctx.rng
        out = []
        for api in (1, 2):
            fine = (lambda: op1(rng, "get_state", {})) if api == 1 else \
                   (lambda: {"op": "stop", "a": {}, "replies": [login(rng), ack(rng)]})
            for op in UNSUPPORTED[api]:
                for pos in range(3):
                    for _ in range(ctx.pick(2, 20)):
                        ops = [fine() for _ in range(2)]
                        ops.insert(pos, {"op": op, "a": self._args(rng, op), "replies": [login(rng), ack(rng)]})
                        out.append(one(rng, api, ops, t0=1790553600.25))
        return out

    def owns(self, clause):
        return clause.startswith(("X01:", "C03:", "C18:"))

    def nontrivial(self, ev):
        return ev["ev"] == "Ret"


class _X03(ClientProp):
    id = "X03"
    beyond = True
    title = "the display text of a listed schedule is the next-run text of its start and days"
    rule = ("listings of 0..6 records x even day masks x starts within two days of now, over host zones and dates incl. "
            "DST-change days and minutes around the start time; distinct = distinct events; non-trivial = returns")

    def mc_runs(self, ctx):
        return [{"module": "MC_NextRun"}]

    def scenarios(self, ctx: Ctx):
        rng = ctx.rng
        out = []
        zones = ZONES_QUICK if ctx.quick else ZONES_ALL[:12]
        dates = [(2026, 3, 27), (2026, 10, 25), (2026, 11, 1), (2026, 12, 31), (2028, 2, 29), (2026, 6, 15)]
        for z in zones:
            for (y, m, d) in dates[: ctx.pick(3, 6)]:
                for hh in (0, 9, 23):
                    now = local_instant(z, y, m, d, hh, rng.choice([0, 15, 59]))
                    rules = zone_rules(z, now, span_days=4)
                    ops = []
                    for _ in range(ctx.pick(12, 120)):
                        nrec = rng.randrange(0, 7)
                        recs = [{"id": k, "mask": rng.choice([0, 2, 4, 84, 126, 254, 2 * rng.randrange(128)]), "enabled": rng.randrange(2),
                                 "start": now + rng.choice([rng.randrange(-2 * 86400, 2 * 86400), rng.randrange(-120, 120), 0, 60, -60]),
                                 "end": now + rng.randrange(-86400, 86400)} for k in range(nrec)]
                        ops.append({"op": "get_schedules", "a": {"zone": rules},
                                    "replies": [login(rng), {"t": "sched", "seed": rng.randrange(1 << 30), "recs": recs}]})
                    for ch in chunks(ops, 30):
                        out.append(one(rng, 1, ch, zone=z, t0=float(now) + rng.choice(SECOND_OFFSETS)))
        return out

    def owns(self, clause):
        return clause.startswith("X03:")

    def nontrivial(self, ev):
        return ev["ev"] == "Ret"


class _X02(BridgeProp):
    id = "X02"
    beyond = True
    title = "an error reported by the OS on a socket leaves the bridge as it was"
    rule = ("error reports (with and without an exception object) on every port, before start, while running, between "
            "broadcasts and after stop; distinct = distinct events; non-trivial = observations and datagrams")

    def mc_runs(self, ctx):
        return []

    def scenarios(self, ctx: Ctx):
        rng = ctx.rng
        out = []
        for _ in range(ctx.pick(40, 600)):
            ports = rng.choice([PORTS, PORTS[:2], PORTS[2:], [20002]])
            steps = []
            if rng.random() < 0.2:
                steps.append({"do": "neterr", "p": rng.choice(ports), "exc": rng.random() < 0.7})
            steps.append({"do": "start"})
            for _ in range(rng.randrange(2, 9)):
                if rng.random() < 0.5:
                    steps.append({"do": "neterr", "p": rng.choice(ports), "exc": rng.random() < 0.7})
                else:
                    steps.append({"do": "dgram", "p": rng.choice(ports), "d": rdev(rng)})
            steps += [{"do": "stop"}, {"do": "neterr", "p": rng.choice(ports), "exc": True}, {"do": "cycle"}]
            if rng.random() < 0.4:
                steps += [{"do": "start"}, {"do": "neterr", "p": rng.choice(ports)}, {"do": "dgram", "p": rng.choice(ports), "d": rdev(rng)},
                          {"do": "stop"}, {"do": "cycle"}]
            out.append({"ports": list(ports), "steps": steps})
        return out

    def owns(self, clause):
        return clause.startswith(("X02:", "C17:", "C07:"))


X01 = _X01()
X02 = _X02()
X03 = _X03()


class _X04(ClientProp):
    id = "X04"
    beyond = True
    title = "scripts/control_device.py: a command line means one client class, one operation and its arguments"
    rule = ("every action of the script except control_thermostat x option values over their boundary grids (timers, names in "
            "several scripts, hours/minutes incl. rejected ones, slots, clock strings and day names, positions) x login key "
            "given or defaulted x device replies incl. end of stream; the script runs as __main__ under runpy on the virtual "
            "network. distinct = distinct events; non-trivial = frames and process ends")

    def mc_runs(self, ctx):
        return []

    def execute(self, scn):
        from ..clidrive import run_scenario
        return run_scenario(scn)

    def scenarios(self, ctx: Ctx):
        from .client import state1, thermo
        rng = ctx.rng
        out = []
        names = ["Boiler", "My Switcher Boiler", "a", "x" * 32, "x" * 33, "שלום עולם", "דוד שמש במרפסת של הבית הישן", "Café 漢字", "n" * 31 + "é"]
        daynames = ["Monday", "Tuesday", "Wednesday", "Thursday", "Friday", "Saturday", "Sunday"]
        zone = "Asia/Jerusalem"
        now = local_instant(zone, 2026, 9, 28, 12, 30)

        def add(action, o, argv, reply, eof_at=None):
            dev = "%06x" % rng.randrange(1 << 24)
            ip = rng.choice(["192.168.1.33", "10.0.0.7", "111.222.11.22"])
            o = dict(o, dev=list(bytes.fromhex(dev)), ip=list(ip.encode()))
            full = [action, "-d", dev, "-i", ip]
            if rng.random() < 0.6:
                key = "%02x" % rng.randrange(256)
                full += ["-l", key]
                o["key"] = list(bytes.fromhex(key))
            if rng.random() < 0.3:
                full.append("-v")
            replies = [login(rng, 44), reply]
            if eof_at is not None:
                replies = replies[:eof_at] + [{"t": "eof"}]
            out.append({"action": action, "o": o, "argv": full + argv, "replies": replies, "ip": ip, "zone": zone,
                        "t0": float(now) + rng.choice(SECOND_OFFSETS)})

        for rep in range(ctx.pick(2, 12)):
            for eof_at in (None, None, 0, 1):
                add("get_state", {}, [], state1(rng), eof_at)
                add("get_thermostat_state", {}, [], thermo(rng), eof_at)
                add("turn_off", {}, [], ack(rng), eof_at)
                add("stop_shutter", {}, [], ack(rng), eof_at)
                add("get_schedules", {}, [], {"t": "sched", "seed": rng.randrange(1 << 30), "recs": []}, eof_at)
            for t in [None, 0, 1, 15, 30, 90, 1439, 1440, 100000]:
                add("turn_on", {"timer": t or 0}, [] if t is None else ["-t", str(t)], ack(rng))
            for nm in names:
                add("set_name", {"name": [ord(c) for c in nm]}, ["-n", nm], ack(rng))
            for h, m in [(1, None), (1, 0), (2, 30), (23, 59), (0, 59), (0, 60), (24, 0), (1, 1), (12, 45), (0, 0)]:
                add("set_auto_shutdown", {"hours": h, "minutes": m or 0}, ["-r", str(h)] + ([] if m is None else ["-m", str(m)]), ack(rng))
            for slot in range(8):
                add("delete_schedule", {"slot": slot}, ["-s", str(slot)], ack(rng))
            for pos in [0, 1, 50, 99, 100]:
                add("set_shutter_position", {"pos": pos}, ["-p", str(pos)], ack(rng))
            for _ in range(ctx.pick(8, 60)):
                st = "%02d:%02d" % (rng.randrange(24), rng.randrange(60))
                en = "%02d:%02d" % (rng.randrange(24), rng.randrange(60))
                days = sorted(rng.sample(range(7), rng.choice([0, 0, 1, 2, 3, 7])))
                argv = ["-n", st, "-f", en] + (["-w"] + [daynames[d] for d in days] if days else [])
                add("create_schedule", {"start": list(st.encode()), "end": list(en.encode()), "days": days}, argv, ack(rng))
            add("create_schedule", {"start": list(b"25:00"), "end": list(b"07:00"), "days": []}, ["-n", "25:00", "-f", "07:00"], ack(rng))
        return out

    def owns(self, clause):
        return not clause.startswith("harness:")

    def nontrivial(self, ev):
        return ev["ev"] in ("Write", "Ret")


X04 = _X04()


class _X05(BridgeProp):
    id = "X05"
    beyond = True
    title = "scripts/discover_devices.py listens on the ports of the requested protocol type and prints each device once"
    rule = ("protocol-type option in {1, 2, all, none} x valid broadcasts of every model sent to all four ports while the "
            "script runs (as __main__ under runpy, one second of real time each); distinct = distinct events")

    def mc_runs(self, ctx):
        return []

    def execute(self, scn):
        from ..clidrive import run_discover
        return run_discover(scn)

    def scenarios(self, ctx: Ctx):
        rng = ctx.rng
        out = []
        for typ, argv in (("1", ["1", "-t", "1"]), ("2", ["1", "-t", "2"]), ("all", ["1", "-t", "all"]), ("", ["1"])):
            for _ in range(ctx.pick(1, 4)):
                dgrams = [{"p": p, "d": rdev(rng)} for p in PORTS for _ in range(2)]
                rng.shuffle(dgrams)
                out.append({"type": typ, "argv": argv, "dgrams": dgrams})
        return out

    def owns(self, clause):
        return clause.startswith("X05:")

    def nontrivial(self, ev):
        return ev["ev"] == "Discover"


X05 = _X05()


class _X06(BridgeProp):
    id = "X06"
    beyond = True
    title = "scripts/get_device_login_key.py prints the login key of the first datagram from the given address heard within two seconds"
    rule = ("the script run as __main__ on a scripted datagram socket and a clock that moves only while it waits: datagrams from the "
            "device and from other addresses, before and after the two seconds, whole broadcasts of every model and short / empty "
            "datagrams; distinct = distinct events")

    def mc_runs(self, ctx):
        return []

    def execute(self, scn):
        from ..clidrive import run_keyscript
        return run_keyscript(scn)

    def scenarios(self, ctx: Ctx):
        rng = ctx.rng
        out = []
        ips = ["10.0.0.5", "192.168.1.33", "10.0.0.50", "10.0.0.5 ", "010.0.0.5"]
        for n in range(ctx.pick(60, 600)):
            ip = ips[n % 2]
            others = [x for x in ips if x != ip]
            dg = []
            t = 0
            for _ in range(rng.randrange(0, 6)):
                t += rng.choice([0, 1, 50, 300, 700, 1200, 1900])
                if 1950 <= t <= 2050:
                    t = 2200
                src = ip if rng.random() < 0.4 else rng.choice(others)
                kind = rng.random()
                if kind < 0.7:
                    dg.append({"at": t, "src": src, "d": rdev(rng)})
                else:
                    dg.append({"at": t, "src": src, "raw": list(rng.randbytes(rng.choice([0, 1, 40, 41, 42, 100])))})
            out.append({"ip": ip, "port": rng.choice([20002, 20003, 10002, 10003, 12345]), "dgrams": dg})
        return out

    def owns(self, clause):
        return clause.startswith("X06:")

    def nontrivial(self, ev):
        return ev["ev"] == "KeyScript"


X06 = _X06()
