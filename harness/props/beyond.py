"""X01 X02 X03 - parts of the specification that no listed property claims.

They are judged by the same trace specifications as the listed properties (Trace_Client, Trace_Bridge); a disagreement is
reported as `DIVERGENCE spec=<id>` and never as a property violation.  They are not registered in MANIFEST.json; evidence
goes to /verif/beyond/.

X01  an operation the device type does not support is refused at once: NotImplementedError, nothing written, and the
     operations around it are unaffected (Client.tla: Supported)
X02  an error the OS reports on one of the bridge's sockets changes nothing: the bridge keeps listening, keeps reporting
     running and keeps delivering (Bridge.tla: AfterNetError)
X03  the display text of a listed schedule is the next-run text of its start time and days at the time of the listing
     (Trace_Client: DisplayFits = Schedule.tla NextRunK over LocalTime.tla)
"""
from __future__ import annotations

from ..core import Ctx
from ..clock import local_instant, zone_rules
from .bridge import BridgeProp, PORTS, rdev
from .client import (ClientProp, SECOND_OFFSETS, ZONES_ALL, ZONES_QUICK, ack, chunks, login, one, op1, sched_args)
from ..irsets import gen_irset


UNSUPPORTED = {
    1: ["get_breeze_state", "set_position", "control_breeze_device"],
    2: ["get_state", "control_device", "set_auto_shutdown", "set_device_name", "get_schedules", "delete_schedule", "create_schedule"],
}


class _X01(ClientProp):
    id = "X01"
    beyond = True
    title = "operations the device type does not support are refused at once and nothing is written"
    rule = ("every unsupported (client class, operation) pair placed at every position of short histories of supported "
            "operations; distinct = distinct events; non-trivial = returns")

    def mc_runs(self, ctx):
        return []

    def _args(self, rng, op):
        if op == "control_device":
            return {"on": rng.randrange(2), "minutes": rng.choice([0, 30])}
        if op == "set_auto_shutdown":
            return {"secs": 3600}
        if op == "set_device_name":
            return {"cps": [97, 98, 99]}
        if op == "delete_schedule":
            return {"slot": rng.randrange(8)}
        if op == "create_schedule":
            return sched_args(rng, "UTC", 1790553600, "ok")
        if op == "set_position":
            return {"pos": rng.randrange(101)}
        if op == "get_schedules":
            return {"zone": zone_rules("UTC", 1790553600)}
        if op == "control_breeze_device":
            return {"irset": gen_irset(rng, toggle=False, special=False, dense=True, small=True), "state": 1, "mode": 4, "temp": 24,
                    "fan": 1, "swing": 0, "update": False}
        return {}

    def scenarios(self, ctx: Ctx):
        rng = ctx.rng
        out = []
        for api in (1, 2):
            fine = (lambda: op1(rng, "get_state", {})) if api == 1 else \
                   (lambda: {"op": "stop", "a": {}, "replies": [login(rng), ack(rng)]})
            for op in UNSUPPORTED[api]:
                for pos in range(3):
                    for _ in range(ctx.pick(2, 20)):
                        ops = [fine() for _ in range(2)]
                        ops.insert(pos, {"op": op, "a": self._args(rng, op), "replies": [login(rng), ack(rng)]})
                        out.append(one(rng, api, ops, t0=1790553600.25))
        return out

    def owns(self, clause):
        return clause.startswith(("X01:", "C03:", "C18:"))

    def nontrivial(self, ev):
        return ev["ev"] == "Ret"


class _X03(ClientProp):
    id = "X03"
    beyond = True
    title = "the display text of a listed schedule is the next-run text of its start and days"
    rule = ("listings of 0..6 records x even day masks x starts within two days of now, over host zones and dates incl. "
            "DST-change days and minutes around the start time; distinct = distinct events; non-trivial = returns")

    def mc_runs(self, ctx):
        return [{"module": "MC_NextRun"}]

    def scenarios(self, ctx: Ctx):
        rng = ctx.rng
        out = []
        zones = ZONES_QUICK if ctx.quick else ZONES_ALL[:12]
        dates = [(2026, 3, 27), (2026, 10, 25), (2026, 11, 1), (2026, 12, 31), (2028, 2, 29), (2026, 6, 15)]
        for z in zones:
            for (y, m, d) in dates[: ctx.pick(3, 6)]:
                for hh in (0, 9, 23):
                    now = local_instant(z, y, m, d, hh, rng.choice([0, 15, 59]))
                    rules = zone_rules(z, now, span_days=4)
                    ops = []
                    for _ in range(ctx.pick(12, 120)):
                        nrec = rng.randrange(0, 7)
                        recs = [{"id": k, "mask": rng.choice([0, 2, 4, 84, 126, 254, 2 * rng.randrange(128)]), "enabled": rng.randrange(2),
                                 "start": now + rng.choice([rng.randrange(-2 * 86400, 2 * 86400), rng.randrange(-120, 120), 0, 60, -60]),
                                 "end": now + rng.randrange(-86400, 86400)} for k in range(nrec)]
                        ops.append({"op": "get_schedules", "a": {"zone": rules},
                                    "replies": [login(rng), {"t": "sched", "seed": rng.randrange(1 << 30), "recs": recs}]})
                    for ch in chunks(ops, 30):
                        out.append(one(rng, 1, ch, zone=z, t0=float(now) + rng.choice(SECOND_OFFSETS)))
        return out

    def owns(self, clause):
        return clause.startswith("X03:")

    def nontrivial(self, ev):
        return ev["ev"] == "Ret"


class _X02(BridgeProp):
    id = "X02"
    beyond = True
    title = "an error reported by the OS on a socket leaves the bridge as it was"
    rule = ("error reports (with and without an exception object) on every port, before start, while running, between "
            "broadcasts and after stop; distinct = distinct events; non-trivial = observations and datagrams")

    def mc_runs(self, ctx):
        return []

    def scenarios(self, ctx: Ctx):
        rng = ctx.rng
        out = []
        for _ in range(ctx.pick(40, 600)):
            ports = rng.choice([PORTS, PORTS[:2], PORTS[2:], [20002]])
            steps = []
            if rng.random() < 0.2:
                steps.append({"do": "neterr", "p": rng.choice(ports), "exc": rng.random() < 0.7})
            steps.append({"do": "start"})
            for _ in range(rng.randrange(2, 9)):
                if rng.random() < 0.5:
                    steps.append({"do": "neterr", "p": rng.choice(ports), "exc": rng.random() < 0.7})
                else:
                    steps.append({"do": "dgram", "p": rng.choice(ports), "d": rdev(rng)})
            steps += [{"do": "stop"}, {"do": "neterr", "p": rng.choice(ports), "exc": True}, {"do": "cycle"}]
            if rng.random() < 0.4:
                steps += [{"do": "start"}, {"do": "neterr", "p": rng.choice(ports)}, {"do": "dgram", "p": rng.choice(ports), "d": rdev(rng)},
                          {"do": "stop"}, {"do": "cycle"}]
            out.append({"ports": list(ports), "steps": steps})
        return out

    def owns(self, clause):
        return clause.startswith(("X02:", "C17:", "C07:"))


X01 = _X01()
X02 = _X02()
X03 = _X03()
