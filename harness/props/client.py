"""C01 C02 C03 C08 C09 C10 C16 - the TCP client, judged by Trace_Client (Client.tla over Wire/Replies/Remote)."""
from __future__ import annotations

import itertools
import random

from ..clock import ZONES_ALL, ZONES_QUICK, local_instant, zone_rules
from ..core import Ctx, Prop
from ..irsets import gen_irset

OPS1 = ["get_state", "control_device", "set_auto_shutdown", "set_device_name", "get_schedules", "delete_schedule", "create_schedule"]
OPS2 = ["stop", "set_position", "get_shutter_state", "get_breeze_state", "control_breeze_device"]

MODEL_RUNS = [{"module": "MC_Wire"}, {"module": "MC_Replies"}]


# ----------------------------------------------------------------------------------------
# building blocks
def rid(rng):
    if rng.random() < 0.1:      # ids / keys that look like protocol markers or like nothing at all
        return rng.choice(["f0fe01", "fef0aa", "00f0fe", "000000", "ffffff", "0a0d00"]), rng.choice(["f0", "fe", "00", "ff", "30"])
    dev, key = rng.randbytes(3).hex(), rng.randbytes(1).hex()
    c = rng.random()
    if c < 0.12:                # hex text is hex text in either case (ids are often copied in capitals from the device's label)
        dev, key = dev.upper(), key.upper()
    elif c < 0.2:
        dev = "".join(ch.upper() if n % 2 else ch for n, ch in enumerate(dev))
    return dev, key


MARKER_SESSIONS = [[0xF0, 0xFE, 0x00, 0x01], [0xFE, 0xF0, 0xF0, 0xFE], [0x01, 0xF0, 0xFE, 0x02], [0x00, 0x00, 0xF0, 0xFE], [0xFE, 0xF0, 0x30, 0x00],
                   [0, 0, 0, 0], [0xFF, 0xFF, 0xFF, 0xFF], [0x0A, 0x0D, 0x00, 0x20]]


def login(rng, n=None):
    d = {"t": "login", "seed": rng.randrange(1 << 30), "len": n or rng.choice([12, 13, 44, 44, 44, 48, 64, 100])}
    if rng.random() < 0.12:
        d["sess"] = rng.choice(MARKER_SESSIONS)
    return d


def ack(rng):
    return {"t": "ack", "seed": rng.randrange(1 << 30), "len": rng.choice([1, 4, 44, 54, 56, 107])}


def state1(rng, **kw):
    d = {"t": "state1", "seed": rng.randrange(1 << 30), "len": rng.choice([107, 107, 101, 105, 120]),
         "state": rng.randrange(2), "watts": rng.choice([0, 1, 219, 220, 1608, 2600, 3489, 65535, 61694, 65264, rng.randrange(65536)]),
         "left": rng.choice([0, 1, 59, 60, 3599, 3600, 86399, 61694, 65264, rng.randrange(86400)]),
         "on": rng.choice([0, 61, 86399, 61694, rng.randrange(86400)]), "auto": rng.choice([0, 3600, 10800, 86340, 61694, 65264, rng.randrange(86400)])}
    d.update(kw)
    return d


REMOTE_IDS = ["ELEC7022", "ELEC7001", "ZM079055", "A", "AB12", "GREE001", "Z~ {}|x", "ELEC7020", "AUX10", "P", "@home", "0", "00000000", "p0P@p0P@"]


def rand_remote(rng):
    if rng.random() < 0.5:
        return rng.choice(REMOTE_IDS)
    return "".join(chr(rng.randrange(33, 127)) for _ in range(rng.randrange(1, 9)))


def thermo(rng, **kw):
    d = {"t": "thermo", "seed": rng.randrange(1 << 30), "len": rng.choice([109, 109, 92, 96, 130]),
         "state": rng.randrange(2), "mode": rng.randrange(1, 6), "target": rng.choice([0, 16, 23, 24, 30, 255, rng.randrange(256)]),
         "fan": rng.randrange(4), "swing": rng.randrange(2),
         "temp10": rng.choice([0, 1, 255, 256, 281, 65535, 61694, 65264, rng.randrange(65536)]), "remote": rand_remote(rng)}
    d.update(kw)
    return d


def shutter(rng, **kw):
    d = {"t": "shutter", "seed": rng.randrange(1 << 30), "len": rng.choice([100, 100, 80, 84, 120]),
         "position": rng.choice([0, 1, 50, 99, 100, 101, 255, rng.randrange(256)]),
         "direction": rng.choice([[0, 0], [1, 0], [0, 1]])}
    d.update(kw)
    return d


def names(ctx: Ctx):
    alph = {"ascii": lambda k: 97 + k % 26, "hebrew": lambda k: 0x5D0 + k % 27, "latin1": lambda k: 0xE0 + k % 30,
            "cjk": lambda k: 0x4E2D + 7 * k, "emoji": lambda k: 0x1F600 + k % 40,
            "mixed": lambda k: [97 + k % 26, 0x5D0 + k % 27, 0x20, 0x1F600 + k % 9, 0xE9][k % 5]}
    lens = [0, 1, 2, 3, 7, 8, 9, 10, 11, 15, 16, 17, 31, 32, 33, 40] if ctx.quick else list(range(0, 41))
    out = []
    for f in alph.values():
        for n in lens:
            out.append([f(k) for k in range(n)])
    # names that are not in Unicode normal form C (the caller's text is what must be sent, code point for code point)
    out += [[67, 97, 102, 101, 0x301], [0x65, 0x301] * 10 + [97], [0x65, 0x301] * 11, [0xFB2A] * 10 + [97, 98], [0xFB2A] * 11,
            [0x5E9, 0x5C1, 0x5B8, 0x5DC], [0x5E9, 0x5B8, 0x5C1, 0x5DC], [0x41, 0x30A, 0x212B, 0xC5], [0x1E9B, 0x323], [0x3A9, 0x2126],
            [0xAC00, 0x1100, 0x1161], [32, 97, 98, 32], [9, 97, 98], [97, 98, 10], [0xA0, 97, 98, 0xA0], [0x2003, 0x2003]]
    return out


MINUTES = [0, 1, 2, 59, 60, 61, 90, 1092, 1093, 1440, 65535, 65536, 65537, 1000000, 71582787, 71582788, 71582789, 71582790,
           100000000, 2147483647]
BIG_MINUTES = ["2147483648", "4294967295", "4294967296", "71582788000", "1000000000000"]
SECS = [0, 1, 59, 60, 3540, 3599, 3600, 3601, 3659, 3660, 5400, 7260, 43200, 86339, 86340, 86341, 86399, 86400, 86401, 90000, 172800, -60]
from ..clockstrings import LENIENT as CLOCK_LENIENT, MALFORMED as CLOCK_BAD  # noqa: E402


def sched_args(rng, zone: str, now: int, kind: str = "ok"):
    days = sorted(rng.sample(range(7), rng.randrange(0, 8)))
    a = {"zone": zone_rules(zone, now), "now": now, "days": days, "form": "set",
         "start_s": f"{rng.randrange(24):02d}:{rng.randrange(60):02d}", "end_s": f"{rng.randrange(24):02d}:{rng.randrange(60):02d}"}
    if kind == "dup" and days:
        a["days"] = days + [days[0]]
        a["form"] = rng.choice(["list", "tuple"])
    elif kind == "list" and days:
        a["form"] = rng.choice(["list", "tuple"])
    elif kind == "badclock":
        a[rng.choice(["start_s", "end_s"])] = rng.choice(CLOCK_BAD)
    elif kind == "lenient":
        a[rng.choice(["start_s", "end_s"])] = rng.choice(CLOCK_LENIENT)
    return a


def op1(rng, name: str, a: dict, ok_login=True):
    cmd_reply = {"get_state": state1(rng), "get_schedules": {"t": "sched", "seed": rng.randrange(1 << 30), "recs": []}}.get(name, ack(rng))
    return {"op": name, "a": a, "replies": [login(rng), cmd_reply]}


MARKER_CLOCKS = [float(int.from_bytes(bytes(b), "little")) + 0.25 for b in ([0xF0, 0xFE, 0x10, 0x60], [0x01, 0xF0, 0xFE, 0x6A], [0xFE, 0xF0, 0x00, 0x6B],
                                                                            [0x00, 0x00, 0xF0, 0xFE], [0xF0, 0xFE, 0xF0, 0xFE])]
SMALL_CLOCKS = [16.0, 255.0, 256.0, 4096.25, 4660.5, 21600.0, 65536.0, 1048576.0, 5097600.0, 15724800.0, 16777216.5, 268435456.0]


def t0_any(rng):
    if rng.random() < 0.35:
        return rng.choice(SMALL_CLOCKS + MARKER_CLOCKS)
    return rng.choice([1.0, 255.5, 65535.75, 1790000000.25, 2147483647.5, 2147483648.0, 4294967294.25, float(rng.randrange(1, 4294967295)) + rng.random()])


SECOND_OFFSETS = [0.0, 0.25, 0.5, 0.99, 29.7, 58.4, 59.2, 59.5, 59.75, 59.99]


def t0_pre2038(rng):
    base = rng.choice([1700000000, 1790553600, 1774569600 + 3600 * 11, rng.randrange(1600000000, 2140000000)])
    return float(base - base % 60) + rng.choice(SECOND_OFFSETS)


def breeze_call(rng, irset=None, **force):
    irset = irset or gen_irset(rng, small=True)
    a = {"irset": irset, "state": rng.choice([-1, 0, 1]), "mode": rng.choice([0, 0, 1, 2, 3, 4, 5]),
         "temp": rng.choice([0, 0, 10, 16, 20, 24, 30, 45]), "fan": rng.choice([-1, -1, 0, 1, 2, 3]), "swing": rng.choice([-1, 0, 1]),
         "update": rng.random() < 0.3}
    a.update(force)
    return a


def breeze_op(rng, a, faults=None, rep=None):
    """Replies for a thermostat control call: login, state, main ack, swing ack; faults = set of step numbers that get EOF."""
    faults = faults or set()
    if rep is None:
        codes = {"aa": 1, "ad": 2, "aw": 3, "ar": 4, "ah": 5}
        sup = sorted({codes[w["Key"][:2]] for w in a["irset"]["IRWaveList"] if w["Key"][:2] in codes})
        kw = {"mode": rng.choice(sup)} if sup and rng.random() < 0.85 else {}
        rep = thermo(rng, remote=a["irset"]["IRSetID"], target=rng.choice([16, 20, 24, 30]), **kw)
    seq = [login(rng, 44), rep, ack(rng), ack(rng)]
    for k in faults:
        if k < len(seq):
            seq[k] = {"t": "eof"}
    return {"op": "control_breeze_device", "a": a, "replies": seq}


# ----------------------------------------------------------------------------------------
def e2e_phase(ctx: Ctx, owns) -> dict:
    """End-to-end behaviours (API object -> simulated device -> broadcast -> bridge) judged by Trace_Switcher."""
    import random as _r
    import warnings
    from .. import e2edrive, tlc
    rng = _r.Random(ctx.seed + 77)
    scns = e2edrive.scenarios(rng, ctx.pick(160, 4000))
    runs = []
    with warnings.catch_warnings():
        warnings.simplefilter("ignore")
        for n, sc in enumerate(scns):
            evs = e2edrive.run_scenario(sc)
            for k, e in enumerate(evs):
                e["tid"] = n + 1
                e["k"] = k
            runs.append(evs)
    v = tlc.validate("Trace_Switcher", runs, shards=8)
    mism = []
    harness_trouble = [b for b in v["bad"] if any(c.startswith("harness:") for c in b["why"])]
    if harness_trouble:
        raise tlc.Machinery(f"the device simulator disagrees with the device model: {harness_trouble[:2]}")
    for b in v["bad"]:
        mine = [c for c in b["why"] if owns(c)]
        if mine:
            evs = runs[b["tid"] - 1]
            mism.append({"behaviour": b["tid"], "step": b["k"], "action": b["ev"], "what": ",".join(mine), "expected": "device model (Device.tla)",
                         "observed": {k: vv for k, vv in evs[b["k"]].items() if k != "b"}, "scenario": scns[b["tid"] - 1]})
    # ... and behaviours of the end-to-end model chosen by TLC (Gen_Switcher: commands, queries, time, broadcasts sent / lost /
    # delivered, bridge started / stopped, for each device family) stepped through the real objects
    g = e2edrive.gen_replay(ctx.seed, ctx.pick(30, 400), ctx.quick)
    for m in g["mismatches"]:
        if owns(m["what"]):
            mism.append(m)
    return {"label": "end-to-end (API object -> simulated device -> broadcast -> bridge): recorded runs judged by Trace_Switcher + "
                     "TLC-generated behaviours of Switcher.tla replayed",
            "gen": {"module": "Trace_Switcher + Gen_Switcher", "behaviours": len(runs) + g["behaviours"], "states": v["states"] + g["info"]["states"],
                    "branches": v["tags"], "generated_behaviours": g["behaviours"], "generated_steps": g["steps"]},
            "behaviours": len(runs) + g["behaviours"], "steps": v["n_events"] + g["steps"], "mismatches": mism}


class ClientProp(Prop):
    trace_module = "Trace_Client"
    shards = 16
    base_assumptions = [
        "the wire layout in Wire.tla/Replies.tla is a transcription of the protocol as the pinned commit speaks it, "
        "cross-checked by TLC against the repository's captures and pinned frames (MC_Wire, MC_Replies)",
        "an 'empty reply' is end-of-stream: with real streams read() returns b'' only then, and it persists for the connection",
        "every reply reaches the client in one piece (one read): a reply split by the network is a hazard outside the statements, "
        "kept as the negative model MC_ClientChunked",
        "the fake device and reply generators are not trusted: TLC classifies every reply (well-formed or not) itself",
    ]

    def mc_runs(self, ctx):
        return list(MODEL_RUNS)

    def execute(self, scn):
        from ..tcpdrive import run_scenario, run_script
        return run_script(scn) if "script" in scn else run_scenario(scn)

    def nontrivial(self, ev):
        return ev["ev"] in ("Write", "Ret", "Reply")

    gen_info: dict | None = None

    def rerun_behaviour(self, rp):
        from .bridge import rerun_any
        return rerun_any(rp, self.owns)

    def tlc_scripts(self, ctx: Ctx, num: int) -> list[dict]:
        """spec -> code: environment scripts (which operation, which reply class, released to whom, clock ticks) chosen by
        TLC's simulator on Gen_Client; replayed against two real clients and judged like every other recording."""
        from .. import tlcgen
        behs, info = tlcgen.behaviours("Gen_Client", "Gen_Client.cfg", num, 60, ctx.seed % 100000)
        self.gen_info = info
        out = []
        for n, b in enumerate(behs):
            d1, k1 = rid(ctx.rng)
            d2, k2 = rid(ctx.rng)
            out.append({"zone": "UTC", "t0": t0_pre2038(ctx.rng), "seed": n,
                        "inst": [{"api": 1, "dev": d1, "key": k1}, {"api": 2, "dev": d2, "key": k2}], "script": b})
        return out

    def extra_coverage(self, ctx):
        if self.gen_info:
            return {"behaviours_replayed_into_impl": self.gen_info["behaviours"], "behaviour_generator": self.gen_info}
        return {}


def one(rng, api: int, ops: list, zone="UTC", t0=None, order=None, inst2=None):
    dev, key = rid(rng)
    s = {"zone": zone, "t0": t0 if t0 is not None else t0_any(rng), "inst": [{"api": api, "dev": dev, "key": key}], "ops": [ops]}
    return s


# ----------------------------------------------------------------------------------------
def grid_type1_ops(ctx: Ctx, rng, zone: str, now: int, sweep: bool = True) -> list[dict]:
    """Every type-1 operation over its boundary grid (one op dict each)."""
    ops = []
    for m in MINUTES:
        for on in (0, 1):
            ops.append(op1(rng, "control_device", {"on": on, "minutes": m}))
    for m in BIG_MINUTES:
        ops.append(op1(rng, "control_device", {"on": 1, "minutes_s": m}))
    secs = list(SECS)
    if not ctx.quick:
        secs += list(range(3600 - 120, 3600 + 121)) + list(range(86340 - 120, 86400 + 121))
    if sweep:
        secs += [60 * m for m in range(60, 1440)]        # every whole minute of the accepted range 1 h .. 23 h 59 min
    for s in secs:
        ops.append(op1(rng, "set_auto_shutdown", {"secs": s}))
    for cps in names(ctx):
        ops.append(op1(rng, "set_device_name", {"cps": cps}))
    for s in range(8):
        ops.append(op1(rng, "delete_schedule", {"slot": s}))
    for k in range(ctx.pick(60, 1500)):
        kind = ["ok", "ok", "ok", "list", "dup", "badclock", "lenient"][k % 7]
        ops.append(op1(rng, "create_schedule", sched_args(rng, zone, now, kind)))
    for n, bad in enumerate(CLOCK_BAD):               # every malformed spelling, as the start and as the end
        for which in ("start_s", "end_s"):
            a = sched_args(rng, zone, now, "ok")
            if not a["days"]:
                a["days"] = [n % 7]
            a[which] = bad
            ops.append(op1(rng, "create_schedule", a))
    for _ in range(3):
        ops.append(op1(rng, "get_state", {}))
        ops.append(op1(rng, "get_schedules", {"zone": zone_rules(zone, now)}))
    return ops


def grid_type2_ops(ctx: Ctx, rng) -> list[dict]:
    ops = []
    for p in range(0, 101, 1 if not ctx.quick else 7):
        ops.append({"op": "set_position", "a": {"pos": p}, "replies": [login(rng, 44), ack(rng)]})
    for p in (100, 1, 99):
        ops.append({"op": "set_position", "a": {"pos": p}, "replies": [login(rng, 44), ack(rng)]})
    for _ in range(4):
        ops.append({"op": "stop", "a": {}, "replies": [login(rng, 44), ack(rng)]})
        ops.append({"op": "get_shutter_state", "a": {}, "replies": [login(rng), shutter(rng)]})
        ops.append({"op": "get_breeze_state", "a": {}, "replies": [login(rng), thermo(rng)]})
    return ops


def chunks(seq, n):
    for i in range(0, len(seq), n):
        yield seq[i:i + n]


class C02(ClientProp):
    id = "C02"
    title = "each operation's frame encodes exactly that operation and the caller's arguments"
    rule = ("every type-1 operation and the shutter operations over boundary grids: minutes 0..2^32/60 and beyond, timedeltas "
            "around both range ends (thorough: every second within +-120 s), names of 0..40 code points over ASCII / Hebrew / "
            "Latin-1 / CJK / emoji / mixed, slots 0..7, schedules over day sets x clock times x zones (incl. duplicate days, "
            "malformed and lenient clock strings), positions 0..100, random device ids/keys/sessions/clock. "
            "distinct = distinct events; non-trivial = frames, replies and returns (not bookkeeping events)")

    def scenarios(self, ctx: Ctx):
        rng = ctx.rng
        out = []
        zones = ZONES_QUICK if ctx.quick else ZONES_ALL
        for zi, z in enumerate(zones):
            t0 = float(local_instant(z, 2026, [3, 10, 11, 4][zi % 4], [27, 25, 1, 5][zi % 4], 11, 30)) + SECOND_OFFSETS[(zi * 3 + 1) % len(SECOND_OFFSETS)]
            ops = grid_type1_ops(ctx, rng, z, int(t0)) if zi == 0 or not ctx.quick else \
                [op1(rng, "create_schedule", sched_args(rng, z, int(t0), ["ok", "list", "dup", "badclock"][k % 4])) for k in range(40)]
            for ci, ch in enumerate(chunks(ops, 25)):
                out.append(one(rng, 1, ch, zone=z, t0=t0 - t0 % 60 + SECOND_OFFSETS[ci % len(SECOND_OFFSETS)]))
        # schedules created shortly after and shortly before local midnight (the local date is not the UTC date then), in zones east
        # and west of UTC, on ordinary days and on the days of a clock change
        for zi, z in enumerate(ZONES_ALL if not ctx.quick else ["Asia/Jerusalem", "America/New_York", "Pacific/Kiritimati", "Pacific/Pago_Pago", "Australia/Lord_Howe"]):
            for (mo, dd) in ((6, 15), (3, 27), (11, 1)):
                for (hh, mm) in ((0, 20), (23, 40)):
                    t0 = float(local_instant(z, 2026, mo, dd, hh, mm)) + SECOND_OFFSETS[(zi + hh) % len(SECOND_OFFSETS)]
                    ops = [op1(rng, "create_schedule", sched_args(rng, z, int(t0), ["ok", "list", "ok"][k % 3])) for k in range(ctx.pick(4, 12))]
                    out.append(one(rng, 1, ops, zone=z, t0=t0))
        for ch in chunks(grid_type2_ops(ctx, rng), 25):
            out.append(one(rng, 2, ch))
        # the device resets the session instead of answering the login or the command frame.  The call may simply fail; a client
        # that starts the operation over on a new connection must send the caller's arguments again, not its defaults
        def with_reset(o, at):
            o = dict(o)
            o["replies"] = [login(rng)][:at] + [{"t": "reset"}] + list(o["replies"])
            return o
        z = "Asia/Jerusalem"
        t0 = float(local_instant(z, 2026, 6, 15, 11, 30)) + 0.25
        for at in (0, 1):
            rs1 = [op1(rng, "control_device", {"on": 1, "minutes": m}) for m in (32, 30, 5, 179)] + \
                  [op1(rng, "control_device", {"on": 0, "minutes": 0}), op1(rng, "set_auto_shutdown", {"secs": 7200}),
                   op1(rng, "set_device_name", {"cps": [97, 98, 99]}), op1(rng, "delete_schedule", {"slot": 3})] + \
                  [op1(rng, "create_schedule", sched_args(rng, z, int(t0), "ok")) for _ in range(4)]
            for o in rs1:
                out.append(one(rng, 1, [with_reset(o, at), op1(rng, "get_state", {})], zone=z, t0=t0))
            for pos in (0, 31, 50, 99, 100):
                o = {"op": "set_position", "a": {"pos": pos}, "replies": [login(rng), ack(rng)]}
                out.append(one(rng, 2, [with_reset(o, at), {"op": "stop", "a": {}, "replies": [login(rng), ack(rng)]}]))
        return out

    assumptions = ClientProp.base_assumptions + [
        "negative minutes, positions outside 0..100, slot ids outside 0..7, lenient clock spellings and clock times that do "
        "not exist today (DST gap) are outside the statement's domain and left open",
        "end-to-end portion: the simulated device's semantics (Device.tla: timer when none is given = auto-shutdown, 2600 W when on) "
        "are the model's; the simulator is validated by TLC against that model at every broadcast",
    ]

    def mc_runs(self, ctx):
        return list(MODEL_RUNS) + [{"module": "Switcher", "cfg": "Switcher.cfg"}, {"module": "Switcher", "cfg": "Switcher_Live.cfg"}]

    def replay_phase(self, ctx):
        return e2e_phase(ctx, lambda c: c.startswith("C02:"))


class C01(ClientProp):
    id = "C01"
    title = "every frame written is self-consistent and correctly signed"
    rule = ("all operations of both APIs incl. thermostat control with IR commands of 1..2000 bytes (separate swing command, "
            "status-update frame), names in any script, random ids/keys/sessions and clock readings over the whole 32-bit "
            "range; every captured write is one event. distinct = distinct events; non-trivial = written frames")
    assumptions = ClientProp.base_assumptions + ["frames of an operation whose login reply carried no session id (< 12 bytes) are not constrained"]

    def scenarios(self, ctx: Ctx):
        rng = ctx.rng
        out = []
        z = "UTC"
        t0 = 1790553600.5
        ops = grid_type1_ops(Ctx("quick", ctx.seed), rng, z, int(t0), sweep=not ctx.quick)
        rng.shuffle(ops)
        # the frames whose length depends on the argument (names) are always part of the run; a sample of the others in the quick tier
        named = [o for o in ops if o["op"] == "set_device_name"]
        others = [o for o in ops if o["op"] != "set_device_name"]
        for ch in chunks(named + others[: ctx.pick(220, len(others))], 20):
            out.append(one(rng, 1, ch, zone=z, t0=t0))
        for ch in chunks(grid_type2_ops(Ctx("quick", ctx.seed), rng), 20):
            out.append(one(rng, 2, ch))
        # every length of a login reply that carries a session id (12 bytes and more), for an operation of each kind: what the
        # client writes after it must be well-formed whatever else the reply does or does not hold
        sweep1, sweep2 = [], []
        for n in list(range(12, 61)) + [64, 100, 255, 256, 1023, 1024]:
            sweep1.append({"op": "control_device", "a": {"on": 1, "minutes": 5}, "replies": [login(rng, n), ack(rng)]})
            sweep1.append({"op": "get_state", "a": {}, "replies": [login(rng, n), state1(rng)]})
            sweep2.append({"op": "set_position", "a": {"pos": 30}, "replies": [login(rng, n), ack(rng)]})
            sweep2.append({"op": "get_shutter_state", "a": {}, "replies": [login(rng, n), shutter(rng)]})
        for ch in chunks(sweep1, 22):
            out.append(one(rng, 1, ch, zone=z, t0=t0))
        for ch in chunks(sweep2, 22):
            out.append(one(rng, 2, ch))
        # names around the 32-byte limit in scripts whose characters take 1..4 bytes (always part of the run)
        edge = []
        for ch_, nb in ((0x5D0, 2), (0x4E2D, 3), (0x1F600, 4), (0xE9, 2), (0x61, 1)):
            for nbytes in (30, 31, 32, 33, 34, 36, 40, 48, 64):
                k = nbytes // nb
                if 2 <= k <= 40:
                    edge.append(op1(rng, "set_device_name", {"cps": [ch_ + (q % 5 if nb > 1 else q % 26) for q in range(k)]}))
        for ch in chunks(edge, 15):
            out.append(one(rng, 1, ch, zone=z, t0=t0))
        # thermostat control with IR codes of every interesting length
        for k in range(ctx.pick(40, 400)):
            ir = gen_irset(rng, long_codes=True, small=True, special=[True, False][k % 2], toggle=[True, False, False][k % 3])
            ops = []
            for _ in range(8):
                a = breeze_call(rng, ir)
                ops.append(breeze_op(rng, a))
            out.append(one(rng, 2, ops))
        for _ in range(ctx.pick(30, 300)):
            ops = [op1(rng, rng.choice(["get_state", "get_schedules"]), {"zone": zone_rules("UTC", 1790000000)}) for _ in range(6)]
            out.append(one(rng, 1, ops, t0=t0_any(rng)))
        # several API objects alive at once (both types, either construction order), their exchanges interleaved, some replies empty
        helper = C03()
        for _ in range(ctx.pick(80, 1500)):
            apis = rng.choice([(1, 2), (2, 1), (1, 1), (2, 2), (1, 2, 1), (2, 1, 2)])
            inst = []
            for api in apis:
                dev, key = rid(rng)
                inst.append({"api": api, "dev": dev, "key": key})
            ops = [[helper._any_op(rng, api) for _ in range(rng.randrange(1, 4))] for api in apis]
            for lst in ops:
                if rng.random() < 0.2:
                    lst[-1]["replies"][0] = {"t": "eof"}      # this object's last login gets no answer
            out.append({"zone": "UTC", "t0": t0_pre2038(rng), "inst": inst, "ops": ops, "order": [rng.randrange(len(apis)) for _ in range(40)]})
        out += self.tlc_scripts(ctx, ctx.pick(400, 5000))      # interleavings and fault patterns chosen by TLC (Gen_Client)
        return out

    def nontrivial(self, ev):
        return ev["ev"] == "Write"


class C03(ClientProp):
    id = "C03"
    title = "every operation logs in first and binds its commands to that login"
    rule = ("all ordered pairs of operation kinds back to back on one connection (exhaustive for length 2 over the 12 kinds of "
            "each API incl. thermostat control shapes), random histories up to length 20, and two API instances of different "
            "types/ids/keys run concurrently with every reply released in a seeded random order while the clock advances; the "
            "device issues a fresh random session id per login; histories with a slow device (a reply 0.05 s .. 1 h late on the loop's virtual "
            "clock), an impatient caller (wait_for around the call) and a reconnect on the same API object. "
            "distinct = distinct events; non-trivial = frames and returns")

    def mc_runs(self, ctx):
        return [{"module": "MC_Client", "cfg": ctx.pick("MC_Client.cfg", "MC_ClientDeep.cfg"), "timeout": 1700, "coverage": False},
                {"module": "MC_ClientShared", "expect_violation": "SessionOfOwnLogin", "workers": 2},
                # a call abandoned while it waits (cancellation, timeout) and answered late: the next operation reads that answer
                {"module": "MC_ClientAbandon", "expect_violation": "SessionOfThisLogin", "workers": 2},
                {"module": "MC_ClientAbandon", "cfg": "MC_ClientAbandonSilent.cfg", "workers": 2},
                # the library itself gives up on a slow device: keeping the connection violates C03, hanging up does not
                {"module": "MC_ClientAbandon", "cfg": "MC_ClientTimeoutKeeps.cfg", "expect_violation": "SessionOfThisLogin", "workers": 2},
                {"module": "MC_ClientAbandon", "cfg": "MC_ClientTimeoutHangsUp.cfg", "workers": 2},
                # a reply handed over in two pieces shifts every later exchange (outside the statements; the drivers deliver replies whole)
                {"module": "MC_ClientChunked", "expect_violation": "SessionOfThisLogin", "workers": 2},
                {"module": "MC_ClientChunked", "cfg": "MC_ClientChunkedWhole.cfg", "workers": 2}] + MODEL_RUNS[:1] + ctx.pick([], [
                    # two operations per client: too large to exhaust (> 30 min on 16 cores), explored by random walks
                    {"module": "MC_Client", "cfg": "MC_ClientTwoOps.cfg", "simulate": "num=40000", "depth": 40, "timeout": 900, "workers": 8},
                    # ... and exhausted over the smallest alphabet that still has every operation class (10.9 M distinct states)
                    {"module": "MC_Client", "cfg": "MC_ClientTwoOpsTiny.cfg", "timeout": 3000, "coverage": False},
                    {"module": "MC_Client", "cfg": "MC_ClientLive.cfg", "timeout": 1200, "workers": 8}])

    def _any_op(self, rng, api, zone="UTC", now=1790553600):
        if api == 1:
            name = rng.choice(OPS1)
            a = {"control_device": {"on": rng.randrange(2), "minutes": rng.choice([0, 0, 30, 90])},
                 "set_auto_shutdown": {"secs": rng.choice([3600, 5400, 7260])},
                 "set_device_name": {"cps": [97 + rng.randrange(26) for _ in range(rng.randrange(2, 20))]},
                 "delete_schedule": {"slot": rng.randrange(8)},
                 "create_schedule": sched_args(rng, zone, now, "ok"),
                 "get_schedules": {"zone": zone_rules(zone, now)}}.get(name, {})
            o = op1(rng, name, a)
        else:
            name = rng.choice(OPS2)
            if name == "control_breeze_device":
                o = breeze_op(rng, breeze_call(rng))
            else:
                rep = {"get_shutter_state": shutter(rng), "get_breeze_state": thermo(rng)}.get(name, ack(rng))
                o = {"op": name, "a": {"pos": rng.randrange(101)} if name == "set_position" else {}, "replies": [login(rng), rep]}
        o["tick"] = rng.choice([0, 0, 0.5, 1, 1.25, 60, 3600.5])
        o["tick_mid"] = rng.choice([0, 0, 0.75, 2])
        if rng.random() < 0.06:
            o["cancel_at"] = rng.randrange(1, 4)       # the caller gives up while waiting for the k-th reply of this operation
        return o

    def scenarios(self, ctx: Ctx):
        rng = ctx.rng
        out = []
        # exhaustive pairs per API
        for api, kinds in ((1, OPS1), (2, OPS2)):
            for a, b in itertools.product(kinds, repeat=2):
                ops = []
                for name in (a, b):
                    for _ in range(50):
                        o = self._any_op(rng, api)
                        if o["op"] == name:
                            break
                    else:
                        continue
                    ops.append(o)
                out.append(one(rng, api, ops, t0=t0_pre2038(rng), zone=rng.choice(ZONES_ALL)))
        for _ in range(ctx.pick(60, 1200)):
            api = rng.choice([1, 2])
            z = rng.choice(ZONES_ALL)
            ops = [self._any_op(rng, api, zone=z) for _ in range(rng.randrange(3, 21))]
            out.append(one(rng, api, ops, t0=t0_pre2038(rng), zone=z))
        # long histories on one object (counters, caches that evict, the N-th call for N in the hundreds)
        for api in (1, 2):
            for _ in range(ctx.pick(1, 6)):
                z = rng.choice(ZONES_ALL)
                ops = [self._any_op(rng, api, zone=z) for _ in range(ctx.pick(300, 1200))]
                for o in ops:
                    o["tick"] = rng.choice([0, 0, 0, 1, 61])
                out.append(one(rng, api, ops, t0=t0_pre2038(rng), zone=z))
        # two instances, interleaved
        for _ in range(ctx.pick(150, 3000)):
            apis = rng.choice([(1, 2), (1, 1), (2, 2), (2, 1)])
            inst = []
            for api in apis:
                dev, key = rid(rng)
                inst.append({"api": api, "dev": dev, "key": key})
            ops = [[self._any_op(rng, api) for _ in range(rng.randrange(1, 5))] for api in apis]
            order = [rng.randrange(2) for _ in range(40)]
            out.append({"zone": rng.choice(ZONES_ALL), "t0": t0_pre2038(rng), "inst": inst, "ops": ops, "order": order})
        out += slow_device_scenarios(ctx, rng, self._any_op)
        # every length of a login reply that carries a session id: the commands of that operation carry those four bytes
        for api in (1, 2):
            ops = []
            for n in list(range(12, 61)) + [64, 100, 255, 256, 1023, 1024]:
                o = self._any_op(rng, api)
                if o["replies"] and o["replies"][0].get("t") == "login":
                    o["replies"][0] = login(rng, n)
                ops.append(o)
            for ch in chunks(ops, 20):
                out.append(one(rng, api, ch, t0=t0_pre2038(rng)))
        # the timestamp of a frame is the epoch second, whatever the host's wall clock shows: on both passes through the hour
        # that is repeated when clocks go back, and around the hour that is skipped when they go forward
        from ..clock import transition_days
        for zone in ("Asia/Jerusalem", "Europe/Berlin", "America/New_York", "Australia/Lord_Howe")[: ctx.pick(3, 4)]:
            for t in transition_days(zone, 2026):
                for off in (-3590, -1800, -1, 10, 1800, 3599, 3700):
                    api = 1 + (off + t) % 2
                    out.append(one(rng, api, [self._any_op(rng, api), self._any_op(rng, api)], zone=zone, t0=t + off + 0.25))
        out += self.tlc_scripts(ctx, ctx.pick(300, 5000))
        return out

    assumptions = ClientProp.base_assumptions + [
        "a slow device (it answers a frame seconds, minutes or an hour later, on the loop's virtual clock) is still the device of the "
        "statement: the call waits and binds as usual; a caller that gives up first (wait_for) abandons a frame the device then never answers",
        "'current timestamp' = a reading taken between the start of the operation and the write (floor/ceiling of the virtual clock)",
        "two tasks sharing ONE API instance are outside the statement (instances are independent; one instance is sequential)",
    ]


DELAYS = [0.05, 0.9, 1.1, 2.5, 4.9, 5.1, 9.9, 10.1, 29.9, 30.1, 59, 61, 119, 121, 299, 301, 3601]


def slow_device_scenarios(ctx: Ctx, rng, any_op) -> list[dict]:
    """Histories on one connection in which the device takes its time over one or more answers; sometimes the caller's
    patience (a wait_for around the call) is shorter than that, and it carries on with the same API object afterwards."""
    out = []
    for n in range(ctx.pick(80, 1200)):
        api = 1 + n % 2
        ops = [any_op(rng, api) for _ in range(rng.randrange(2, 6))]
        victim = ops[rng.randrange(len(ops))]
        for r in victim["replies"]:
            if rng.random() < 0.7 and r.get("t") != "eof":
                r["delay"] = DELAYS[(n + len(out)) % len(DELAYS)] if rng.random() < 0.8 else rng.choice(DELAYS)
        if n % 4 == 3:          # an impatient caller: it gives up before the slowest answer, then goes on (sometimes on a new connection)
            slow = max((r.get("delay", 0) for r in victim["replies"]), default=0)
            if slow > 0.2:
                victim["patience"] = slow / 2
                if n % 8 == 7:
                    ops.insert(ops.index(victim) + 1, {"op": "reconnect"})
        out.append(one(rng, api, ops, t0=t0_pre2038(rng)))
    return out


HOST_ZONES = ["Asia/Jerusalem", "America/New_York", "Asia/Kolkata", "Asia/Kathmandu", "Pacific/Auckland", "America/St_Johns", "UTC"]


class C08(ClientProp):
    id = "C08"
    title = "state replies are decoded into exactly what the device reported"
    rule = ("get_state / get_breeze_state / get_shutter_state against replies with every field over its domain placed into "
            "random filler of the lengths real devices send (every second reply with the header real devices send); login session observed "
            "through the next frame; replies cut short although their header announced more + an impatient caller + a reconnect, then whole "
            "replies; slow devices; end to end: state queries after commands against the device model, recorded and TLC-generated. "
            "distinct = distinct events; non-trivial = returned objects and the replies behind them")

    def scenarios(self, ctx: Ctx):
        rng = ctx.rng
        out = []
        n = ctx.pick(1000, 50000)
        grid1 = [dict(left=t) for t in (0, 1, 59, 60, 3599, 3600, 86399)] + [dict(watts=w) for w in (0, 1, 11, 109, 110, 111, 219, 220, 330, 65535)] \
            + [dict(state=s) for s in (0, 1)]
        ops = [op1(rng, "get_state", {})]
        for g in grid1:
            ops.append({"op": "get_state", "a": {}, "replies": [login(rng), state1(rng, **g)]})
        for _ in range(n):
            ops.append({"op": "get_state", "a": {}, "replies": [login(rng), state1(rng)]})
        for ch in chunks(ops, 40):
            out.append(one(rng, 1, ch))
        ops = []
        for m in range(1, 6):
            for f in range(4):
                for s in range(2):
                    ops.append({"op": "get_breeze_state", "a": {}, "replies": [login(rng), thermo(rng, mode=m, fan=f, swing=s)]})
        for p in range(0, 256, 1 if not ctx.quick else 5):
            ops.append({"op": "get_shutter_state", "a": {}, "replies": [login(rng), shutter(rng, position=p)]})
        for _ in range(n):
            if rng.random() < 0.5:
                ops.append({"op": "get_breeze_state", "a": {}, "replies": [login(rng), thermo(rng)]})
            else:
                ops.append({"op": "get_shutter_state", "a": {}, "replies": [login(rng), shutter(rng)]})
        for ch in chunks(ops, 40):
            out.append(one(rng, 2, ch))
        # a reply cut short although its header announced more (the rest never comes), a caller of little patience, a new
        # connection with the same API object - and then a whole reply, which must be decoded like any other
        for n in range(ctx.pick(24, 400)):
            api = 1 + n % 2
            q, full = (("get_state", state1(rng)) if api == 1 else
                       (("get_breeze_state", thermo(rng)) if n % 4 == 1 else ("get_shutter_state", shutter(rng))))
            full["hdr"] = True
            cut = {"t": "prefix", "of": dict(full), "n": rng.choice([12, 40, 44, 60, 76, 80, 90, 100])}
            first = {"op": q, "a": {}, "replies": [login(rng), cut], "patience": rng.choice([0.05, 0.3, 0.9, 2.0, 7.0])}
            again = {"op": q, "a": {}, "replies": [login(rng), dict(full, seed=rng.randrange(1 << 30))]}
            mid = [{"op": "reconnect"}] if n % 3 != 2 else []
            out.append(one(rng, api, [first] + mid + [again, {"op": q, "a": {}, "replies": [login(rng), dict(full, seed=rng.randrange(1 << 30))]}]))
        out += slow_device_scenarios(Ctx(ctx.tier, ctx.seed + 8), rng, lambda r, api: (
            {"op": "get_state", "a": {}, "replies": [login(r), state1(r)]} if api == 1 else
            ({"op": "get_breeze_state", "a": {}, "replies": [login(r), thermo(r)]} if r.random() < 0.5 else
             {"op": "get_shutter_state", "a": {}, "replies": [login(r), shutter(r)]})))[: ctx.pick(30, 300)]
        # what a reply means does not depend on where the host is: durations are not wall-clock times (two of three scenarios
        # run in a host zone east or west of UTC, with whole-hour, half-hour and 45-minute offsets)
        for k, scn in enumerate(out):
            if k % 3 and scn.get("zone", "UTC") == "UTC":
                scn["zone"] = HOST_ZONES[k % len(HOST_ZONES)]
        return out

    def owns(self, clause):
        return clause.startswith("C08:") or clause == "C03:session-of-this-login"

    def mc_runs(self, ctx):
        return list(MODEL_RUNS) + [{"module": "Switcher", "cfg": c, "workers": 8} for c in ("Switcher.cfg", "SwitcherShutter.cfg", "SwitcherThermo.cfg")]

    def replay_phase(self, ctx):
        # end to end: operations change the simulated device, state queries on the same connection must report the device model's state
        return e2e_phase(ctx, lambda c: c.startswith("C08:"))

    def extra_coverage(self, ctx):
        cov = dict(super().extra_coverage(ctx))
        if not ctx.quick:
            # unbounded: the device model's counters stay within a day and agree with its power state for ANY timer, auto-shutdown
            # value and passage of time (inductive invariant discharged with Apalache, spec/apalache/DeviceTimer.tla) - so every
            # state the end-to-end model can reach has a state reply and a broadcast that render as HH:MM:SS
            from .. import tlc
            r = tlc.apalache_inductive(str(tlc.SPEC / "apalache" / "DeviceTimer.tla"), "Init", "IndInit", "IndInv",
                                       ["PowerAndTimerAgree", "CountersWithinADay", "OffHasNotBeenOn"])
            print(f"   Apalache: inductive invariant of the device timer discharged ({len(r['obligations'])} obligations, {r['wall_s']} s)", flush=True)
            cov["inductive_invariant"] = r
        return cov

    assumptions = ClientProp.base_assumptions + [
        "amps: either neighbouring tenth is accepted at an exact tie of watts/220",
        "thermostat replies with unknown mode / fan codes or a non-printable remote id are 'not well-formed' here and only "
        "constrained by C09",
    ]


def fault_variants(rng, valid: dict, n_prefix: int):
    full_len = valid.get("len", 100)
    outs = [{"t": "eof"}]
    for k in sorted(set([1, 2, 11, 12, 13, 40, 74, 75, 76, 77, 78, 79, 80, 81, 82, 84, 88, 89, 90, 91, 92, 93, 96, 97, 100, 101,
                         full_len - 1] + [rng.randrange(1, full_len) for _ in range(n_prefix)])):
        if 0 < k < full_len:
            outs.append({"t": "prefix", "of": valid, "n": k})
    for _ in range(6):
        outs.append({"t": "garbage", "seed": rng.randrange(1 << 30), "n": rng.choice([1, 2, 50, 100, 107, 109, 500, 1024])})
    for n in (1, 2, 12, 44, 107, 1024):
        outs.append({"t": "raw", "b": [0] * n})          # non-empty replies made of NUL bytes only
    outs.append({"t": "raw", "b": [255] * 60})
    return outs


class C09(ClientProp):
    id = "C09"
    title = "no device reply can crash the client or be mistaken for success"
    rule = ("every operation x every step of its exchange x replies from {end of stream, every interesting prefix length of a "
            "valid reply (all in thorough), random bytes of length 1..1024, valid reply with single fields corrupted (state "
            "byte, times > 86399, bad enums, invalid UTF-8 remote id)}. distinct = distinct events; non-trivial = returns")

    def mc_runs(self, ctx):
        return ([{"module": "MC_Client", "cfg": ctx.pick("MC_ClientNoClock.cfg", "MC_ClientDeep.cfg"), "timeout": 1700}] + MODEL_RUNS[1:]
                + ctx.pick([], [{"module": "MC_Client", "cfg": "MC_ClientLive.cfg", "timeout": 1200, "workers": 8}]))

    def scenarios(self, ctx: Ctx):
        rng = ctx.rng
        out = []
        npre = ctx.pick(6, 120)
        # state queries: faults at the login step and at the state step
        for api, name, mk in ((1, "get_state", state1), (2, "get_breeze_state", thermo), (2, "get_shutter_state", shutter)):
            valid = mk(rng)
            ops = []
            for lg in fault_variants(rng, login(rng, 44), 4):
                ops.append({"op": name, "a": {}, "replies": [lg, mk(rng)]})
            variants = fault_variants(rng, valid, npre)
            corrupt = []
            base = mk(rng)
            if name == "get_state":
                corrupt = [[(75, 2)], [(75, 255)], [(92, 1)], [(91, 255), (92, 0)], [(96, 200)], [(100, 1)], [(89, 128), (90, 81), (91, 1), (92, 0)]]
            elif name == "get_breeze_state":
                corrupt = [[(79, 0)], [(79, 6)], [(79, 255)], [(81, 0x40)], [(81, 0xF0)], [(81, 0x02)], [(81, 0x0F)], [(78, 2)], [(84, 0xFF)],
                           [(84, 0xC3), (85, 0x28)], [(91, 0xE2)], [(84, 0), (85, 0), (86, 0), (87, 0), (88, 0), (89, 0), (90, 0), (91, 0)]]
            else:
                corrupt = [[(78, 1), (79, 1)], [(78, 2)], [(79, 255)], [(78, 0), (79, 2)]]
            # a well-formed reply whose numeric fields are all zero / all at their ceiling, in either state: a device that was
            # switched on this very second reports ON with nothing elapsed and nothing left
            if name == "get_state":
                for st_ in (0, 1):
                    for blk in (range(77, 101), range(89, 97), range(89, 93), range(93, 97), range(77, 81)):
                        corrupt.append([(75, st_)] + [(k, 0) for k in blk])
                    corrupt.append([(75, st_)] + [(k, v) for a in (77, 81, 89, 93, 97) for k, v in ((a, 255), (a + 1, 255), (a + 2, 255 if a == 77 else 0), (a + 3, 0))])
            elif name == "get_breeze_state":
                corrupt += [[(76, 0), (77, 0)], [(76, 255), (77, 127)], [(80, 0)], [(80, 255)]]
            else:
                corrupt += [[(75, 0), (76, 0)], [(75, 100), (76, 0)], [(75, 255), (76, 255)]]
            for c in corrupt:
                variants.append({"t": "mutate", "of": base, "set": c})
            for v in variants:
                ops.append({"op": name, "a": {}, "replies": [login(rng), v]})
            for ch in chunks(ops, 1):      # one call per connection: end-of-stream persists on a connection
                out.append(one(rng, api, ch))
        # histories on one connection: a good answer, then the SAME unparsable answer twice, then a good one again
        for api, name, mk in ((1, "get_state", state1), (2, "get_breeze_state", thermo), (2, "get_shutter_state", shutter)):
            for _ in range(ctx.pick(12, 200)):
                good = mk(rng)
                bad = rng.choice([{"t": "prefix", "of": mk(rng), "n": rng.choice([1, 30, 60, 74, 75, 76, 77, 79, 80, 90])},
                                  {"t": "garbage", "seed": rng.randrange(1 << 30), "n": rng.choice([1, 40, 100, 107, 109, 200])},
                                  {"t": "raw", "b": [0] * rng.choice([1, 50, 107])}])
                seq = [good, bad, bad, dict(bad), mk(rng), bad]
                ops = [{"op": name, "a": {}, "replies": [login(rng), r]} for r in seq]
                out.append(one(rng, api, ops))
        # generic operations: success iff the reply came; empty login
        gen1 = [("control_device", {"on": 1, "minutes": 5}), ("set_auto_shutdown", {"secs": 3600}), ("set_device_name", {"cps": [97, 98, 99]}),
                ("delete_schedule", {"slot": 2}), ("get_schedules", {"zone": [[0, 0]]}),
                ("create_schedule", sched_args(rng, "UTC", 1790553600, "ok"))]
        gen2 = [("stop", {}), ("set_position", {"pos": 40})]
        for api, lst in ((1, gen1), (2, gen2)):
            for name, a in lst:
                for lg in fault_variants(rng, login(rng, 44), 3):
                    out.append(one(rng, api, [{"op": name, "a": a, "replies": [lg, ack(rng)]}], t0=1790553600.5))
                for rp in [{"t": "eof"}, {"t": "garbage", "seed": 3, "n": 1}, {"t": "garbage", "seed": 4, "n": 1024}, ack(rng),
                           {"t": "raw", "b": [0]}, {"t": "raw", "b": [0] * 54}, {"t": "raw", "b": [0, 0, 0, 0, 0]}, {"t": "raw", "b": [32]}]:
                    out.append(one(rng, api, [{"op": name, "a": a, "replies": [login(rng), rp]}], t0=1790553600.5))
        # thermostat control with a fault at each step
        for _ in range(ctx.pick(40, 600)):
            a = breeze_call(rng)
            for step in range(4):
                for bad in ({"t": "eof"}, {"t": "garbage", "seed": rng.randrange(99), "n": rng.choice([1, 5, 60, 91, 109])}):
                    o = breeze_op(rng, a)
                    o["replies"][step] = bad
                    out.append(one(rng, 2, [o]))
        # "nothing" also means nothing YET: a device that takes seconds, minutes, an hour over an answer (whole or faulty)
        def q(r, api):
            name, mk = ("get_state", state1) if api == 1 else r.choice([("get_breeze_state", thermo), ("get_shutter_state", shutter)])
            rep = mk(r)
            if r.random() < 0.3:
                rep = r.choice(fault_variants(r, rep, 3))
            return {"op": name, "a": {}, "replies": [login(r), rep]}
        out += slow_device_scenarios(Ctx(ctx.tier, ctx.seed + 9), rng, q)[: ctx.pick(60, 800)]
        out += self.tlc_scripts(ctx, ctx.pick(200, 4000))
        return out

    def owns(self, clause):
        return clause.startswith("C09:")

    def nontrivial(self, ev):
        return ev["ev"] == "Ret"


class C10(ClientProp):
    id = "C10"
    title = "listed schedules decode exactly; a created schedule reads back unchanged"
    rule = ("(a) listings of 0..8 records x ids 0..255 (incl. repeated ids) x all even masks x instants inside the zone-rule "
            "window built by the fake device and decoded by get_schedules; (b) round trip: create_schedule -> the device model "
            "stores the record (checked by TLC against its own decoder) -> get_schedules lists it back, possibly on a later date; "
            "over host zones and dates incl. DST-change days. distinct = distinct events; non-trivial = returns")

    def scenarios(self, ctx: Ctx):
        rng = ctx.rng
        out = []
        zones = ZONES_QUICK if ctx.quick else ZONES_ALL[:10]
        dates = [(2026, 3, 27), (2026, 10, 25), (2026, 11, 1), (2026, 4, 5), (2026, 12, 31), (2028, 2, 29), (2026, 6, 15), (2026, 3, 8)]
        for z in zones:
            for (y, m, d) in dates[: ctx.pick(3, 8)]:
                now = local_instant(z, y, m, d, rng.choice([0, 9, 12, 23]), 15)
                rules = zone_rules(z, now, span_days=4)
                ops = []
                for _ in range(ctx.pick(30, 400)):
                    nrec = rng.randrange(0, 9)
                    ids = [rng.choice([k, rng.randrange(256), 0, 255]) for k in range(nrec)]
                    recs = [{"id": i, "mask": rng.choice([0, 2, 4, 84, 126, 254, 2 * rng.randrange(128)]), "enabled": rng.randrange(2),
                             "start": now + rng.randrange(-2 * 86400, 2 * 86400), "end": now + rng.randrange(-2 * 86400, 2 * 86400)} for i in ids]
                    for r in recs:          # the corners of "duration": same minute, one minute short of a day, a whole day apart
                        if rng.random() < 0.3:
                            r["end"] = r["start"] + rng.choice([0, 0, 1, 59, -60, 60, 86400, -86400, 86340, 3600, -3600])
                    ops.append({"op": "get_schedules", "a": {"zone": rules},
                                "replies": [login(rng), {"t": "sched", "seed": rng.randrange(1 << 30), "recs": recs}]})
                ops.append({"op": "get_schedules", "a": {"zone": rules}, "replies": [login(rng), {"t": "eof"}]})
                for ch in chunks(ops, 30):
                    out.append(one(rng, 1, ch, zone=z, t0=float(now) + rng.choice(SECOND_OFFSETS)))
                # round trips; the listing happens `later` seconds after the creation
                for _ in range(ctx.pick(12, 150)):
                    ops = []
                    ncreate = rng.randrange(1, 6)
                    later = rng.choice([0, 60, 3600, 86400, 2 * 86400])
                    r2 = zone_rules(z, now, span_days=5)
                    for _ in range(ncreate):
                        a = sched_args(rng, z, now, rng.choice(["ok", "ok", "list"]))
                        a["zone"] = r2
                        ops.append(op1(rng, "create_schedule", a))
                    ops.append({"op": "get_schedules", "a": {"zone": r2}, "tick": later,
                                "replies": [login(rng), {"t": "listing", "seed": rng.randrange(1 << 30)}]})
                    out.append(one(rng, 1, ops, zone=z, t0=float(now) + rng.choice(SECOND_OFFSETS)))
        # create, delete, create again, list: the device keeps its schedules in slots (lowest free slot first), a deleted one is gone
        for z in zones[:3]:
            now = local_instant(z, 2026, 6, 15, 10, 15)
            r2 = zone_rules(z, now, span_days=5)
            for _ in range(ctx.pick(20, 300)):
                ops, live = [], []
                for _step in range(rng.randrange(3, 10)):
                    if live and rng.random() < 0.4:
                        sid = rng.choice(live)
                        live.remove(sid)
                        ops.append(op1(rng, "delete_schedule", {"slot": sid}))
                    elif len(live) < 8:
                        a = sched_args(rng, z, now, rng.choice(["ok", "ok", "list"]))
                        a["zone"] = r2
                        ops.append(op1(rng, "create_schedule", a))
                        live.append(next(i for i in range(9) if i not in live))
                    if rng.random() < 0.35:
                        ops.append({"op": "get_schedules", "a": {"zone": r2}, "replies": [login(rng), {"t": "listing", "seed": rng.randrange(1 << 30)}]})
                ops.append({"op": "get_schedules", "a": {"zone": r2}, "replies": [login(rng), {"t": "listing", "seed": rng.randrange(1 << 30)}]})
                out.append(one(rng, 1, ops, zone=z, t0=float(now) + rng.choice(SECOND_OFFSETS)))
        # listings taken after 2038-01-19 (the 32-bit fields hold instants up to 2106): records around "now" and records that
        # straddle the 2^31 boundary seen from a host in January 2038
        for z in zones[:4]:
            for (y, m, d) in ((2038, 1, 19), (2038, 1, 20), (2040, 3, 25), (2071, 7, 1), (2100, 3, 1), (2105, 12, 31)):
                now = local_instant(z, y, m, d, rng.choice([0, 3, 12, 23]), 15)
                ops = []
                for _ in range(ctx.pick(8, 80)):
                    nrec = rng.randrange(1, 9)
                    recs = [{"id": rng.choice([k, rng.randrange(256)]), "mask": rng.choice([0, 2, 84, 254, 2 * rng.randrange(128)]), "enabled": rng.randrange(2),
                             "start": now + rng.randrange(-2 * 86400, 2 * 86400), "end": now + rng.randrange(-2 * 86400, 2 * 86400)} for k in range(nrec)]
                    ops.append({"op": "get_schedules", "a": {"zone": [], "span": 4},
                                "replies": [login(rng), {"t": "sched", "seed": rng.randrange(1 << 30), "recs": recs}]})
                out.append(one(rng, 1, ops, zone=z, t0=float(now) + rng.choice(SECOND_OFFSETS)))
        return out

    def owns(self, clause):
        return clause.startswith("C10:")

    def nontrivial(self, ev):
        return ev["ev"] == "Ret"

    assumptions = ClientProp.base_assumptions + [
        "the display text of a schedule is judged by C13; replies that are not whole 16-byte records and records with odd "
        "day masks are outside the statement's domain",
        "with repeated slot ids the returned schedule must equal one of the records carrying that id",
        "the device model stores the record of every create frame in the next slot and lists slots in order (validated by TLC "
        "against its own frame decoder: clause harness:device-lists-its-slots)",
    ]


class C16(ClientProp):
    id = "C16"
    title = "thermostat control changes only what was asked"
    rule = ("reported states (2 x 5 x targets x 4 x 2) x all 2^5 subsets of requested settings x values x remote kinds (toggle / "
            "plain x separate swing or not) x update-only flag x end-of-stream injected at each step; small generated IR sets. "
            "distinct = distinct events; non-trivial = frames and returns")

    def mc_runs(self, ctx):
        return [{"module": "MC_Client", "cfg": ctx.pick("MC_ClientNoClock.cfg", "MC_ClientDeep.cfg"), "timeout": 1700}, {"module": "MC_Remote", "timeout": 900}]

    def scenarios(self, ctx: Ctx):
        rng = ctx.rng
        out = []
        kinds = [(t, s) for t in (True, False) for s in (True, False)]
        for k in range(ctx.pick(48, 1200)):
            toggle, special = kinds[k % 4]
            ir = gen_irset(rng, toggle=toggle, special=special, dense=k % 3 != 0, small=True)
            ops = []
            for mask in range(32):
                a = {"irset": ir,
                     "state": rng.choice([0, 1]) if mask & 1 else -1,
                     "mode": rng.choice([1, 2, 3, 4, 5]) if mask & 2 else 0,
                     "temp": rng.choice([10, 16, 18, 20, 22, 24, 30, 40]) if mask & 4 else 0,
                     "fan": rng.randrange(4) if mask & 8 else -1,
                     "swing": rng.randrange(2) if mask & 16 else -1,
                     "update": (k // 4 + mask) % 3 == 0}
                faults = set()
                if rng.random() < 0.25:
                    faults = {rng.randrange(4)}
                ops.append(breeze_op(rng, a, faults))
            # a state query first, then a control call while the device reports something else
            for _ in range(2):
                before = thermo(rng, remote=ir["IRSetID"])
                ops.append({"op": "get_breeze_state", "a": {}, "replies": [login(rng, 44), before]})
                a = breeze_call(rng, ir)
                after = thermo(rng, remote=ir["IRSetID"], state=1 - before["state"], target=rng.choice([17, 21, 25, 29]),
                               fan=(before["fan"] + 1) % 4, swing=1 - before["swing"])
                ops.append(breeze_op(rng, a, None, after))
            # the same fully specified request twice on one remote object, the device reporting a different power state
            for _ in range(3):
                req = {"irset": ir, "state": rng.randrange(2), "mode": rng.choice([1, 2, 3, 4, 5]), "temp": rng.choice([16, 20, 24, 30]),
                       "fan": rng.randrange(4), "swing": rng.randrange(2), "update": False}
                first = rng.randrange(2)
                for rep_state in (first, 1 - first, first):
                    rep = thermo(rng, remote=ir["IRSetID"], state=rep_state, mode=req["mode"])
                    ops.append(breeze_op(rng, dict(req), None, rep))
            # one call per connection when a fault is injected (end of stream persists), else batches
            batch = []
            for o in ops:
                if any(r["t"] == "eof" for r in o["replies"]):
                    out.append(one(rng, 2, [o]))
                else:
                    batch.append(o)
            for ch in chunks(batch, 12):
                out.append(one(rng, 2, ch))
        out += self.tlc_scripts(ctx, ctx.pick(200, 4000))
        return out

    def owns(self, clause):
        return clause.startswith("C16:")

    assumptions = ClientProp.base_assumptions + [
        "requests whose IR key chain is absent from the set, and calls whose state reply is not well-formed, are open "
        "(only 'never success after an empty reply' still applies)",
    ]


P01, P02, P03, P08, P09, P10, P16 = C01(), C02(), C03(), C08(), C09(), C10(), C16()
P01.assumptions = C01.assumptions
