"""Thin driver around TLC: model-checking runs and trace-validation runs.

Nothing here interprets the system under test; it only launches TLC on the
modules under /verif/spec, collects TLC's own numbers and the verdict file the
trace specifications write with JsonSerialize.
"""

from __future__ import annotations

import json
import os
import re
import shutil
import subprocess
import tempfile
import time
from concurrent.futures import ThreadPoolExecutor
from pathlib import Path

ROOT = Path(__file__).resolve().parent.parent
SPEC = ROOT / "spec"
WORK = ROOT / ".work"
JAR = "/opt/veriftools/tla/tla2tools.jar"
CM = "/opt/veriftools/tla/CommunityModules-deps.jar"
CP = f"{JAR}:{CM}"


class Machinery(Exception):
    """The machinery (not the system under test) failed: exit code 2."""


def scratch(prefix: str) -> Path:
    WORK.mkdir(exist_ok=True)
    return Path(tempfile.mkdtemp(prefix=prefix + "-", dir=WORK))


def _java(gc: str, xmx: str) -> list[str]:
    # TLC leaves an empty directory tlc-<n> in java.io.tmpdir per run: keep them out of /tmp, in one place that is swept
    return ["java", gc, f"-Xmx{xmx}", "-Xss64m", f"-Djava.io.tmpdir={_jtmp()}", "-cp", CP]


def _jtmp() -> Path:
    # one directory per check process: checks that run side by side never touch each other's
    jtmp = WORK / "jtmp" / str(os.getpid())
    jtmp.mkdir(parents=True, exist_ok=True)
    return jtmp


def sweep_jtmp() -> None:
    """Remove what the TLC / SANY processes of THIS check left in its private java.io.tmpdir."""
    shutil.rmtree(WORK / "jtmp" / str(os.getpid()), ignore_errors=True)


_RE_STATES = re.compile(
    r"(\d+) states generated, (\d+) distinct states found, (\d+) states left on queue"
)
_RE_DEPTH = re.compile(r"The depth of the complete state graph search is (\d+)")
_RE_COV = re.compile(r"^<(\w+) line (\d+), col (\d+) to line (\d+), col (\d+) of module (\w+)>: (\d+):(\d+)", re.M)
_RE_INV = re.compile(r"Invariant (\w+) is violated")
_RE_PROP = re.compile(r"Action property (\w+) is violated|Temporal properties were violated|property (\w+) is violated", re.I)


def run_mc(
    module: str,
    cfg: str | None = None,
    workers: int = 16,
    timeout: int = 900,
    coverage: bool = True,
    env: dict | None = None,
    simulate: str | None = None,
    depth: int | None = None,
    xmx: str = "8g",
    seed: int | None = None,
) -> dict:
    """Model-check spec/<module>.tla with spec/<cfg>; returns TLC's own numbers.

    result = {ok, states (distinct), transitions (generated), depth, violated: [names],
              actions: {name: count}, wall_s, out}
    """
    cfg = cfg or module + ".cfg"
    meta = scratch("mc")
    cmd = _java("-XX:+UseParallelGC", xmx) + [
        "tlc2.TLC",
        "-workers", str(min(workers, int(os.environ.get("VERIF_MAX_WORKERS", "64")))),      # (development runs in parallel cap this)
        "-metadir", str(meta),
        "-noGenerateSpecTE",
        "-config", cfg,
    ]
    if coverage and not simulate:
        cmd += ["-coverage", "1"]
    if simulate:
        cmd += ["-simulate", simulate]
    if depth:
        cmd += ["-depth", str(depth)]
    if seed is not None:
        cmd += ["-seed", str(seed)]
    cmd += [module + ".tla"]
    e = dict(os.environ)
    e.update(env or {})
    t0 = time.time()
    try:
        p = subprocess.run(cmd, cwd=SPEC, env=e, capture_output=True, text=True, timeout=timeout)
        out = p.stdout + p.stderr
        rc = p.returncode
        timed_out = False
    except subprocess.TimeoutExpired as te:
        out = (te.stdout or b"").decode() if isinstance(te.stdout, bytes) else (te.stdout or "")
        rc = -1
        timed_out = True
    finally:
        shutil.rmtree(meta, ignore_errors=True)
    wall = time.time() - t0
    res: dict = {"module": module, "cfg": cfg, "wall_s": round(wall, 2), "rc": rc, "timed_out": timed_out}
    ms = _RE_STATES.findall(out)
    if ms:
        g, d, q = ms[-1]
        res.update(transitions=int(g), states=int(d), queue=int(q))
    else:
        # simulation mode prints progress differently
        m2 = re.findall(r"Progress: (\d+) states checked, (\d+) traces generated", out)
        if m2:
            res.update(transitions=int(m2[-1][0]), states=int(m2[-1][0]), traces=int(m2[-1][1]), queue=0)
    md = _RE_DEPTH.search(out)
    if md:
        res["depth"] = int(md.group(1))
    violated = set(_RE_INV.findall(out))
    for a, b in _RE_PROP.findall(out):
        violated.add(a or b or "temporal")
    res["violated"] = sorted(violated)
    acts: dict[str, int] = {}
    for name, *_rest, mod, cnt, _tot in [(m[0], m[1], m[5], m[6], m[7]) for m in _RE_COV.findall(out)]:
        acts[name] = acts.get(name, 0) + int(cnt)
    res["actions"] = acts
    completed = "Model checking completed. No error has been found." in out
    res["ok"] = bool(completed and not violated) or bool(simulate and (timed_out or (rc == 0 and "Finished in" in out)) and not violated and "Error:" not in out)
    res["error"] = None
    if not res["ok"] and not violated:
        # machinery trouble: parse error, evaluation error, crash
        tail = "\n".join(out.strip().splitlines()[-40:])
        res["error"] = tail
    res["out_tail"] = "\n".join(out.strip().splitlines()[-25:])
    return res


def require_mc(res: dict, need_actions: tuple[str, ...] = ()) -> None:
    """A model-checking run that did not complete is a machinery failure (exit 2),

    and so is a run in which an action the property depends on was never taken
    (vacuity guard)."""
    if res.get("error"):
        raise Machinery(f"TLC failed on {res['module']}/{res['cfg']}:\n{res['error']}")
    for a in need_actions:
        if res["actions"].get(a, 0) == 0:
            raise Machinery(f"vacuous model run: action {a} never taken in {res['module']}/{res['cfg']}")


def mc_summary(res: dict) -> dict:
    return {k: res.get(k) for k in ("module", "cfg", "states", "transitions", "depth", "wall_s", "violated", "actions", "traces") if k in res}


# --------------------------------------------------------------------------
# trace validation


def _run_trace_shard(module: str, cfg: str, events: list[dict], idx: int, base: Path, timeout: int, env: dict) -> dict:
    d = base / f"s{idx}"
    d.mkdir()
    tf = d / "trace.ndjson"
    with tf.open("w") as f:
        for ev in events:
            f.write(json.dumps(ev, separators=(",", ":"), ensure_ascii=True))
            f.write("\n")
    vf = d / "verdict.json"
    cmd = _java("-XX:+UseSerialGC", "2g") + [
        "tlc2.TLC", "-workers", "1", "-metadir", str(d / "meta"), "-noGenerateSpecTE",
        "-config", cfg, module + ".tla",
    ]
    e = dict(os.environ)
    e.update(env)
    e["TRACE_FILE"] = str(tf)
    e["VERDICT_FILE"] = str(vf)
    try:
        p = subprocess.run(cmd, cwd=SPEC, env=e, capture_output=True, text=True, timeout=timeout)
    except subprocess.TimeoutExpired:
        raise Machinery(f"trace validation timed out ({module}, shard {idx}, {len(events)} events)")
    out = p.stdout + p.stderr
    if not vf.exists():
        lines = out.strip().splitlines()
        first = next((n for n, l in enumerate(lines) if l.startswith("Error:")), max(0, len(lines) - 40))
        tail = "\n".join(lines[first:first + 25] + ["..."] + lines[-6:])
        raise Machinery(f"trace validation produced no verdict ({module}, shard {idx}):\n{tail}")
    v = json.loads(vf.read_text())
    if v.get("n") != len(events):
        raise Machinery(f"verdict covers {v.get('n')} of {len(events)} events ({module}, shard {idx})")
    ms = _RE_STATES.findall(out)
    v["tlc_states"] = int(ms[-1][1]) if ms else 0
    v["tlc_transitions"] = int(ms[-1][0]) if ms else 0
    viol = set(_RE_INV.findall(out))
    v["invariants_violated"] = sorted(viol)
    if "Error:" in out and not viol:
        tail = "\n".join(out.strip().splitlines()[-40:])
        raise Machinery(f"TLC error during trace validation ({module}, shard {idx}):\n{tail}")
    return v


def validate(
    module: str,
    scenarios: list[list[dict]],
    cfg: str | None = None,
    shards: int = 16,
    timeout: int = 1800,
    env: dict | None = None,
) -> dict:
    """Validate recorded scenarios (each a list of events sharing one tid) with TLC.

    Scenarios are never split across shards.  Returns
    {n_events, n_scenarios, bad: [ {tid, i, ev, why: [clauses], ...} ], tags: {tag: count}, states, transitions}
    """
    cfg = cfg or module + ".cfg"
    scenarios = [s for s in scenarios if s]
    if not scenarios:
        raise Machinery(f"no events recorded for {module}")
    total = sum(len(s) for s in scenarios)
    # at most `shards` TLC processes at a time; big recordings are cut into more (smaller) pieces so that no single
    # TLC process has to hold more than ~25k events
    nsh = max(1, min(max(shards, (total + 24999) // 25000), len(scenarios), (total + 199) // 200))
    buckets: list[list[dict]] = [[] for _ in range(nsh)]
    sizes = [0] * nsh
    for s in sorted(scenarios, key=len, reverse=True):
        k = sizes.index(min(sizes))
        buckets[k].extend(s)
        sizes[k] += len(s)
    base = scratch("tv")
    try:
        with ThreadPoolExecutor(max_workers=min(nsh, max(1, shards), int(os.environ.get("VERIF_MAX_WORKERS", "64")))) as ex:
            futs = [ex.submit(_run_trace_shard, module, cfg, b, k, base, timeout, env or {}) for k, b in enumerate(buckets)]
            vs = [f.result() for f in futs]
    finally:
        shutil.rmtree(base, ignore_errors=True)
    bad: list[dict] = []
    tags: dict[str, int] = {}
    inv: set[str] = set()
    for v in vs:
        bad.extend(v.get("bad", []))
        tg = v.get("tags") or {}
        if isinstance(tg, dict):  # a TLA+ function with a string domain is serialised as an object
            for t, c in tg.items():
                tags[t] = tags.get(t, 0) + int(c)
        inv.update(v.get("invariants_violated", []))
    return {
        "n_events": total,
        "n_scenarios": len(scenarios),
        "bad": bad,
        "bad_overflow": sum(int(v.get("dropped", 0)) for v in vs),
        "tags": tags,
        "states": sum(v["tlc_states"] for v in vs),
        "transitions": sum(v["tlc_transitions"] for v in vs),
        "invariants_violated": sorted(inv),
        "shards": nsh,
    }


def sany(module: str) -> tuple[bool, str]:
    p = subprocess.run(
        ["java", f"-Djava.io.tmpdir={_jtmp()}", "-cp", CP, "tla2sany.SANY", module + ".tla"], cwd=SPEC, capture_output=True, text=True
    )
    out = p.stdout + p.stderr
    ok = p.returncode == 0 and "Semantic errors" not in out and "*** Errors" not in out and "Fatal" not in out and "Parse Error" not in out
    return ok, out


def apalache_inductive(module_path: str, init: str, ind_init: str, ind_inv: str, implied: list[str], timeout: int = 600) -> dict:
    """Discharge an inductive invariant with Apalache: Init => IndInv, IndInv /\\ Next => IndInv', IndInv => each implied property."""
    out_dir = scratch("apa")
    res = {"module": module_path, "obligations": [], "wall_s": 0.0}
    t0 = time.time()
    jobs = [("init-implies-invariant", ["--init=" + init, "--inv=" + ind_inv, "--length=0"]),
            ("invariant-is-inductive", ["--init=" + ind_init, "--inv=" + ind_inv, "--length=1"])]
    jobs += [("invariant-implies-" + p, ["--init=" + ind_init, "--inv=" + p, "--length=0"]) for p in implied]
    try:
        for name, args in jobs:
            p = subprocess.run(["apalache-mc", "check", *args, "--out-dir=" + str(out_dir), Path(module_path).name],
                               cwd=str(Path(module_path).parent), capture_output=True, text=True, timeout=timeout,
                               env=dict(os.environ, TMPDIR=str(_jtmp())))      # the launcher makes its java.io.tmpdir with mktemp -t
            ok = "EXITCODE: OK" in p.stdout
            res["obligations"].append({"name": name, "ok": ok})
            if not ok:
                tail = "\n".join(p.stdout.strip().splitlines()[-12:])
                raise Machinery(f"Apalache did not discharge {name} for {module_path}:\n{tail}")
    finally:
        shutil.rmtree(out_dir, ignore_errors=True)
        res["wall_s"] = round(time.time() - t0, 1)
    return res
