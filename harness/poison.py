"""`stir()` uses other parts of the library in ways that FAIL (and a few that succeed) before a scenario runs: parse errors,
rejected arguments, a bridge whose callback raises, undecodable datagrams.  Whatever those failures leave behind - a module
flag that was not reset, a cache entry created before a check, a memo of the last input - must not change what the
library does afterwards.  Every exception here is swallowed: this is stirring, not checking."""
from __future__ import annotations

import asyncio
import warnings


def _quiet(f, *a, **kw):
    try:
        return f(*a, **kw)
    except BaseException:  # noqa: BLE001
        return None


def stir(level: int = 1) -> None:
    from aioswitcher.api import messages
    from aioswitcher.api.remotes import SwitcherBreezeRemote
    from aioswitcher.device import DeviceState, ThermostatFanLevel, ThermostatMode, ThermostatSwing
    from aioswitcher.device import tools as dtools
    from aioswitcher.schedule import Days, parser
    from aioswitcher.schedule import tools as stools
    with warnings.catch_warnings():
        warnings.simplefilter("ignore")
        for bad in ("zz", "abc", "12\n", "fef0 "):
            _quiet(dtools.sign_packet_with_crc_key, bad)
        _quiet(dtools.sign_packet_with_crc_key, "fef0")
        _quiet(dtools.string_to_hexadecimale_device_name, "x")
        _quiet(dtools.minutes_to_hexadecimal_seconds, 2 ** 40)
        for bad in ([Days.FRIDAY, Days.FRIDAY], [], None):
            _quiet(stools.weekdays_to_hexadecimal, bad)
        for m in (0, 1, 255, 256, -1):
            _quiet(stools.bit_summary_to_days, m)
        for t in ("25:00", "ab", "21:00:00", ""):
            _quiet(stools.time_to_hexadecimal_timestamp, t)
            _quiet(stools.calc_duration, t, "10:00")
            _quiet(stools.pretty_next_run, t, {Days.MONDAY})
        # a listing whose second record is corrupt (odd mask 0x01 / 0xff): parsing fails half way
        good = bytes([0, 1, 2, 1]) + (1790553600).to_bytes(4, "little") * 2 + bytes(4)
        for mask in (1, 255):
            rec = bytes([1, 1, mask, 1]) + (1790553600).to_bytes(4, "little") * 2 + bytes(4)
            _quiet(parser.get_schedules, bytes(45) + good + rec + bytes(4))
        _quiet(parser.get_schedules, bytes(45) + good[:9] + bytes(4))
        for cls in (messages.SwitcherStateResponse, messages.SwitcherThermostatStateResponse, messages.SwitcherShutterStateResponse,
                    messages.SwitcherLoginResponse, messages.SwitcherGetSchedulesResponse):
            for raw in (b"", b"\xff" * 50, bytes(120), b"\x01" * 107):
                _quiet(cls, raw)
        ir = {"IRSetID": "STIR0001", "OnOffType": 1, "IRWaveList": [{"Key": "aa_f1", "Para": "P", "HexCode": "H"}]}
        r = _quiet(SwitcherBreezeRemote, ir)
        if r is not None:
            _quiet(r.build_command, DeviceState.ON, ThermostatMode.HEAT, 24, ThermostatFanLevel.LOW, ThermostatSwing.ON, DeviceState.OFF)
            _quiet(r.build_command, DeviceState.ON, ThermostatMode.AUTO, 24, ThermostatFanLevel.HIGH, ThermostatSwing.ON, None)
            _quiet(r.build_swing_command, ThermostatSwing.ON)
        if level >= 1:
            _quiet(_bridge_trouble)


def _bridge_trouble():
    from . import vnet
    from .udpdrive import make_datagram
    from aioswitcher.bridge import SwitcherBridge

    class Boom(Exception):
        pass

    def cb(dev):
        raise Boom("callback failed")

    net = vnet.VNet()
    loop = vnet.VLoop(net)

    async def main():
        b = SwitcherBridge(cb, [20002])
        await b.start()
        base = {"t": "bc", "fam": "heater", "code": [3, 23], "seed": 1, "id": [1, 2, 3], "key": 1, "name": [97], "ip": [1, 2, 3, 4], "mac": [1] * 6,
                "state": 1, "watts": 5, "remaining": 5, "auto": 5}
        for d in (base, dict(base, name=[0xFF, 0xFE]), dict(base, code=[0xEE, 0xEE]), dict(base, fam="shutter", code=[12, 1], position=5, direction=[9, 9]),
                  dict(base, name=[97] * 31 + [0xD7])):
            net.send_udp(loop, 20002, make_datagram(d))
            await vnet.settle(2)
        await b.stop()
        await vnet.settle(2)
    try:
        loop.run_until_complete(main())
    finally:
        loop.close()


def use() -> None:
    """Ordinary, SUCCESSFUL use of the library (nothing here fails): bridges on the well-known and on other ports hear valid
    broadcasts of every family on every one of them, clients of both types connect, are refused once, connect again and run
    an operation.  The catalogue (types, class guards, port tables) must be the same before and after."""
    from . import vnet
    from .udpdrive import make_datagram
    from aioswitcher.api import SwitcherType1Api, SwitcherType2Api
    from aioswitcher.bridge import SwitcherBridge
    net = vnet.VNet()
    loop = vnet.VLoop(net)
    seen = []
    common = {"t": "bc", "seed": 7, "id": [1, 2, 3], "key": 1, "name": [97, 98], "ip": [1, 2, 3, 4], "mac": [1] * 6}
    fams = [dict(common, fam="heater", code=[3, 23], state=1, watts=5, remaining=5, auto=3600), dict(common, fam="plug", code=[1, 168], state=0, watts=0),
            dict(common, fam="thermo", code=[14, 1], state=1, mode=4, target=24, fan=1, swing=0, temp10=250, remote=list(b"ELEC7022")),
            dict(common, fam="shutter", code=[12, 1], position=5, direction=[0, 0])]

    async def main():
        for ports in ([20002, 20003], [10002, 10003], [34567, 45678], None):
            b = SwitcherBridge(seen.append, ports) if ports is not None else SwitcherBridge(seen.append)
            await b.start()
            for p in (ports or [20002, 10002, 20003, 10003]):
                for d in fams:
                    net.send_udp(loop, p, make_datagram(d))
                    await vnet.settle(2)
            await b.stop()
            await vnet.settle(3)
        net.on_write_hook = lambda conn, data: conn.loop.call_soon(conn.feed, bytes(range(110)))
        for cls, port, op in ((SwitcherType1Api, 9957, "get_state"), (SwitcherType2Api, 10000, "get_shutter_state")):
            api = cls("10.7.7.7", "ab1234", "18")
            for accept in (False, True):
                for prt in (9957, 10000):
                    net.listen("10.7.7.7", prt, accept)
                try:
                    await api.connect()
                    await getattr(api, op)()
                except Exception:  # noqa: BLE001 - a refusal, or whatever the operation makes of the canned reply
                    pass
            await api.disconnect()
    with warnings.catch_warnings():
        warnings.simplefilter("ignore")
        try:
            loop.run_until_complete(main())
        except Exception:  # noqa: BLE001
            pass
        finally:
            loop.close()
