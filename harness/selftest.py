"""./check selftest [ids...]  (development tool, not a registered check)

For every seeded mutant of mutants/catalog.json (or every directory under seeded/): copy /repo to a scratch
directory outside /repo and /verif, apply the change, run the repository's own test suite on the copy (must stay
at its baseline unless the mutant is marked tests=fail), run the expected checks with VERIF_REPO=<copy> and
require a VIOLATION (or, for controls, require silence), then delete the copy.
"""
from __future__ import annotations

import json
import os
import shutil
import subprocess
import sys
import tempfile
from concurrent.futures import ThreadPoolExecutor
from pathlib import Path

ROOT = Path(__file__).resolve().parent.parent
BASELINE = json.loads(Path("/root/.vp/BASELINE.json").read_text()) if Path("/root/.vp/BASELINE.json").exists() else {"stable_pass": []}
CONTROL_CHECKS = {"M42": ["C18"], "M45": ["C02", "C10"], "M46": ["C05", "C07"]}

RUNTESTS = r'''
import sys, json, time_machine, pytest
class P:
    def __init__(self): self.passed=[]; self.failed=[]
    def pytest_runtest_logreport(self, report):
        if report.when == "call":
            (self.passed if report.passed else self.failed).append(report.nodeid)
        elif report.failed:
            self.failed.append(report.nodeid)
p = P()
with time_machine.travel("2026-09-28 12:00:00+00:00", tick=True):
    pytest.main(["-q", "-p", "no:cacheprovider", "--timeout=900", "--continue-on-collection-errors", "-x" if False else "-q"], plugins=[p])
json.dump({"passed": p.passed, "failed": p.failed}, open(sys.argv[1], "w"))
'''


def _norm(nodeid: str) -> str:
    f, _, rest = nodeid.partition("::")
    return f.replace("/", ".").removesuffix(".py") + "::" + rest


def scratch_copy() -> Path:
    d = Path(tempfile.mkdtemp(prefix="verif-mut-", dir="/tmp"))
    subprocess.run(["rsync", "-a", "--exclude", ".git", "--exclude", "__pycache__", "/repo/", str(d) + "/"], check=True)
    # the repository's .gitattributes asks for CRLF in *.py; working trees end up mixed.  Normalise the scratch copy to LF
    # (Python does not care) so that textual mutants and sub-agent patches (converted to LF as well) apply uniformly.
    for f in list((d / "src").rglob("*.py")) + list((d / "tests").rglob("*.py")):
        b = f.read_bytes()
        if b"\r\n" in b:
            f.write_bytes(b.replace(b"\r\n", b"\n"))
    return d


def run_repo_tests(d: Path) -> dict:
    out = d / "_tests.json"
    env = dict(os.environ, PYTHONPATH=str(d / "src"), PYTHONDONTWRITEBYTECODE="1")
    subprocess.run(["/venv/bin/python", "-c", RUNTESTS, str(out)], cwd=d, env=env, capture_output=True, text=True, timeout=900)
    if not out.exists():
        return {"ok": False, "missing": ["(test run crashed)"], "n_pass": 0}
    r = json.loads(out.read_text())
    passed = {_norm(x) for x in r["passed"]}
    missing = sorted(set(BASELINE["stable_pass"]) - passed)
    return {"ok": not missing, "missing": missing[:5], "n_pass": len(passed)}


def run_check(pid: str, d: Path) -> dict:
    env = dict(os.environ, VERIF_REPO=str(d))
    p = subprocess.run([str(ROOT / "check"), pid, "--tier", "quick"], cwd=ROOT, env=env, capture_output=True, text=True, timeout=3000)
    viol = [l for l in p.stdout.splitlines() if l.startswith("VIOLATION")]
    clauses = sorted({c for l in p.stdout.splitlines() if l.strip().startswith("clauses=") for c in eval(l.strip().split("clauses=")[1].split(" scenario")[0])})
    return {"rc": p.returncode, "violations": len(viol), "clauses": clauses[:8], "tail": p.stdout.strip().splitlines()[-1:] if p.returncode == 2 else []}


def one_mutant(m: dict) -> dict:
    d = scratch_copy()
    try:
        if "patch" in m:
            lf = d / "_patch_lf.diff"
            lf.write_bytes(Path(m["patch"]).read_bytes().replace(b"\r\n", b"\n"))
            r = subprocess.run(["patch", "-p1", "-i", str(lf)], capture_output=True, text=True, cwd=d)
            if r.returncode != 0:
                return {"id": m["id"], "error": "patch does not apply: " + (r.stdout + r.stderr)[-300:]}
        else:
            f = d / m["file"]
            s = f.read_text()
            if s.count(m["old"]) != 1:
                return {"id": m["id"], "error": f"pattern occurs {s.count(m['old'])} times in {m['file']}"}
            f.write_text(s.replace(m["old"], m["new"]))
        res = {"id": m["id"], "why": m.get("why", ""), "tests": run_repo_tests(d), "checks": {}}
        todo = m.get("expect") or CONTROL_CHECKS.get(m["id"], m.get("silent", []))
        for pid in todo:
            res["checks"][pid] = run_check(pid, d)
        exp = set(m.get("expect", []))
        res["detected"] = all(res["checks"][p]["rc"] == 1 for p in exp) if exp else None
        res["silent"] = all(c["rc"] == 0 for c in res["checks"].values()) if not exp else None
        return res
    finally:
        shutil.rmtree(d, ignore_errors=True)


def selftest(argv: list[str] | None = None) -> int:
    argv = argv if argv is not None else sys.argv[2:]
    cat = json.loads((ROOT / "mutants" / "catalog.json").read_text())["mutants"]
    seeded = []
    for sd in sorted((ROOT / "seeded").glob("*")):
        meta = sd / "meta.json"
        if meta.exists():
            mm = json.loads(meta.read_text())
            seeded.append({"id": sd.name, "patch": str(sd / "patch.diff"), "expect": mm.get("expect", [mm.get("property")]), "why": mm.get("breaks", ""),
                           "silent": mm.get("silent", [])})
    allm = cat + seeded
    if argv:
        allm = [m for m in allm if m["id"] in argv or any(a in m.get("expect", []) for a in argv)]
    ok = True
    with ThreadPoolExecutor(max_workers=int(os.environ.get("SELFTEST_JOBS", "3"))) as ex:
        for r in ex.map(one_mutant, allm):
            if "error" in r:
                print(f"{r['id']}: ERROR {r['error']}")
                ok = False
                continue
            t = r["tests"]
            line = f"{r['id']}: repo tests {'baseline' if t['ok'] else 'BROKEN ' + str(t['missing'])} ({t['n_pass']} pass); "
            for pid, c in r["checks"].items():
                line += f"{pid}: rc={c['rc']} {c['violations']} violation line(s) {c['clauses']} {c['tail']}; "
            if r["detected"] is True:
                line += "DETECTED"
            elif r["detected"] is False:
                line += "MISSED"
                ok = False
            elif r["silent"]:
                line += "SILENT (control)"
            else:
                line += "FALSE ALARM (control)"
                ok = False
            print(line, flush=True)
    return 0 if ok else 1
