"""scripts/control_device.py run as a program (runpy, run_name="__main__") on the virtual network.

The script calls asyncio.run(); an event-loop policy hands it a VLoop, so the sockets it opens are the virtual ones and no
name inside the script or the library is patched.  What is recorded is what an outside observer of the process sees: the
command line, the address connected to, the bytes written, the replies, how the process ended, and whether the device saw
end-of-stream.  The specification (Trace_Client: CliPlan) decides which client class, operation and arguments the command
line means.

scenario = {"action": ..., "o": {options in the specification's terms}, "argv": [...], "replies": [...], "zone", "t0"}
"""
from __future__ import annotations

import asyncio
import contextlib
import io
import os
import runpy
import sys
import time
from pathlib import Path

from . import vnet
from .clock import frozen, host_zone, zone_rules
from .tcpdrive import devreply


def script_path() -> str:
    root = os.environ.get("VERIF_REPO") or "/repo"
    return str(Path(root) / "scripts" / "control_device.py")


class _Policy(asyncio.DefaultEventLoopPolicy):
    def __init__(self, net):
        super().__init__()
        self.net = net
        self.loops: list = []

    def new_event_loop(self):
        loop = vnet.VLoop(self.net)
        self.loops.append(loop)
        return loop


class CliRun:
    def __init__(self, scn: dict):
        self.scn = scn
        self.ev: list[dict] = []
        self.net = vnet.VNet()
        self.script = list(scn["replies"])
        self.started = False
        self.dev_state = {"slots": [], "pending": None}
        self.last_reply_nonempty = False

    def log(self, **e):
        e["c"] = 1
        self.ev.append(e)

    def _cli_event(self, conn):
        if self.started:
            return
        self.started = True
        o = dict(self.scn["o"])
        if self.scn["action"] in ("create_schedule", "get_schedules"):
            now = int(time.time())
            o["now"] = now
            o["zone"] = zone_rules(self.scn.get("zone", "UTC"), now, span_days=5)
        host, port = conn.addr if conn is not None else ("", 0)
        self.log(ev="Cli", action=self.scn["action"], o=o, host=list(str(host).encode()), port=int(port), clk=self.clk0)

    def _on_write(self, conn, data):
        self._cli_event(conn)
        self.log(ev="Write", b=list(data), clk=vnet.clk_ceil())
        d = self.script.pop(0) if self.script else {"t": "eof"}
        rep = b"" if conn.sent_eof else devreply(d, self.dev_state)
        self.log(ev="Reply", b=list(rep), src="script")
        self.last_reply_nonempty = bool(rep)
        conn.loop.call_soon(conn.feed, rep)

    def go(self) -> list[dict]:
        scn = self.scn
        for port in (9957, 10000):
            self.net.listen(scn["ip"], port, True)
        self.net.on_write_hook = self._on_write
        pol = _Policy(self.net)
        old_pol = asyncio.get_event_loop_policy()
        old_argv = sys.argv
        out = io.StringIO()
        exc = None
        code = 0
        self.clk0 = vnet.clk_floor()
        try:
            asyncio.set_event_loop_policy(pol)
            sys.argv = ["control_device.py"] + list(scn["argv"])
            with contextlib.redirect_stdout(out), contextlib.redirect_stderr(io.StringIO()):
                try:
                    runpy.run_path(script_path(), run_name="__main__")
                except SystemExit as x:
                    code = x.code if isinstance(x.code, int) else (0 if x.code is None else 1)
                except BaseException as x:  # noqa: BLE001 - how the process would have ended
                    exc = x
        finally:
            sys.argv = old_argv
            asyncio.set_event_loop_policy(old_pol)
        conn = self.net.conns[-1] if self.net.conns else None
        self._cli_event(conn)          # connected (or not) without writing anything
        text_out = out.getvalue()
        if exc is not None:
            kind = "runtime" if type(exc) is RuntimeError else "raise"
            self.log(ev="Ret", out=kind, exc=type(exc).__name__, ok=False, r={}, cli=True, code=1)
        elif code != 0:
            self.log(ev="Ret", out="raise", exc=f"SystemExit{code}", ok=False, r={}, cli=True, code=code)
        else:
            if "'successful': True" in text_out:
                ok = True
            elif "'successful': False" in text_out:
                ok = False
            else:
                ok = self.last_reply_nonempty      # the listing prints schedules only: nothing to read the flag from
            self.log(ev="Ret", out="return", exc="", ok=ok, r={}, cli=True, code=0)
        self.log(ev="Disc", how="leave", raised=False, flag=False, eof=bool(conn is not None and conn.closed_seen))
        for lp in pol.loops:
            if not lp.is_closed():
                lp.close()
        return self.ev


class DiscoverRun:
    """scripts/discover_devices.py run as a program: which ports it listens on for a protocol-type option and what it prints.
    scenario = {"argv": [...], "type": "1"|"2"|"all"|"", "dgrams": [{"p": port, "d": datagram description}]}"""

    def __init__(self, scn: dict):
        self.scn = scn
        self.net = vnet.VNet()
        self.bound: list[int] = []
        self.sent: list[dict] = []

    def _inject(self, loop):
        from .udpdrive import make_datagram
        self.bound = sorted(p for p, ep in self.net.udp.items() if not ep.closing)
        for it in self.scn["dgrams"]:
            data = make_datagram(it["d"])
            self.net.send_udp(loop, it["p"], data)
            self.sent.append({"p": it["p"], "b": list(data)})

    def go(self) -> list[dict]:
        import re
        from .udpdrive import live_types
        root = os.environ.get("VERIF_REPO") or "/repo"
        script = str(Path(root) / "scripts" / "discover_devices.py")
        run = self

        class Pol(_Policy):
            def new_event_loop(self_inner):
                loop = _Policy.new_event_loop(self_inner)
                loop.call_later(0.15, run._inject, loop)
                return loop
        pol = Pol(self.net)
        old_pol = asyncio.get_event_loop_policy()
        old_argv = sys.argv
        out = io.StringIO()
        exc = ""
        try:
            asyncio.set_event_loop_policy(pol)
            sys.argv = ["discover_devices.py"] + list(self.scn["argv"])
            with contextlib.redirect_stdout(out), contextlib.redirect_stderr(io.StringIO()):
                try:
                    runpy.run_path(script, run_name="__main__")
                except SystemExit:
                    pass
                except BaseException as x:  # noqa: BLE001
                    exc = type(x).__name__
        finally:
            sys.argv = old_argv
            asyncio.set_event_loop_policy(old_pol)
            for lp in pol.loops:
                if not lp.is_closed():
                    lp.close()
        printed = [list(m.encode()) for m in re.findall(r"'device_id': '([0-9a-fA-F]*)'", out.getvalue())]
        left = sorted(p for p, ep in self.net.udp.items() if not ep.closing)
        return [{"ev": "Types", "known": live_types()},
                {"ev": "Discover", "type": self.scn["type"], "bound": self.bound, "dgrams": self.sent, "printed": printed,
                 "exc": exc, "left": left}]


def run_discover(scn: dict) -> list[dict]:
    return DiscoverRun(scn).go()


def run_scenario(scn: dict) -> list[dict]:
    with host_zone(scn.get("zone", "UTC")), frozen(scn["t0"]):
        return CliRun(scn).go()
