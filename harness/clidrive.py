"""scripts/control_device.py run as a program (runpy, run_name="__main__") on the virtual network.

The script calls asyncio.run(); an event-loop policy hands it a VLoop, so the sockets it opens are the virtual ones and no
name inside the script or the library is patched.  What is recorded is what an outside observer of the process sees: the
command line, the address connected to, the bytes written, the replies, how the process ended, and whether the device saw
end-of-stream.  The specification (Trace_Client: CliPlan) decides which client class, operation and arguments the command
line means.

scenario = {"action": ..., "o": {options in the specification's terms}, "argv": [...], "replies": [...], "zone", "t0"}
"""
from __future__ import annotations

import asyncio
import contextlib
import io
import os
import runpy
import sys
import time
from pathlib import Path

from . import vnet
from .clock import frozen, host_zone, zone_rules
from .tcpdrive import devreply


def script_path() -> str:
    root = os.environ.get("VERIF_REPO") or "/repo"
    return str(Path(root) / "scripts" / "control_device.py")


class _Policy(asyncio.DefaultEventLoopPolicy):
    def __init__(self, net):
        super().__init__()
        self.net = net
        self.loops: list = []

    def new_event_loop(self):
        loop = vnet.VLoop(self.net)
        self.loops.append(loop)
        return loop


class CliRun:
    def __init__(self, scn: dict):
        self.scn = scn
        self.ev: list[dict] = []
        self.net = vnet.VNet()
        self.script = list(scn["replies"])
        self.started = False
        self.dev_state = {"slots": [], "pending": None}
        self.last_reply_nonempty = False

    def log(self, **e):
        e["c"] = 1
        self.ev.append(e)

    def _cli_event(self, conn):
        if self.started:
            return
        self.started = True
        o = dict(self.scn["o"])
        if self.scn["action"] in ("create_schedule", "get_schedules"):
            now = int(time.time())
            o["now"] = now
            o["zone"] = zone_rules(self.scn.get("zone", "UTC"), now, span_days=5)
        host, port = conn.addr if conn is not None else ("", 0)
        self.log(ev="Cli", action=self.scn["action"], o=o, host=list(str(host).encode()), port=int(port), clk=self.clk0)

    def _on_write(self, conn, data):
        self._cli_event(conn)
        self.log(ev="Write", b=list(data), clk=vnet.clk_ceil())
        d = self.script.pop(0) if self.script else {"t": "eof"}
        rep = b"" if conn.sent_eof else devreply(d, self.dev_state)
        self.log(ev="Reply", b=list(rep), src="script")
        self.last_reply_nonempty = bool(rep)
        conn.loop.call_soon(conn.feed, rep)

    def go(self) -> list[dict]:
        scn = self.scn
        for port in (9957, 10000):
            self.net.listen(scn["ip"], port, True)
        self.net.on_write_hook = self._on_write
        pol = _Policy(self.net)
        old_pol = asyncio.get_event_loop_policy()
        old_argv = sys.argv
        out = io.StringIO()
        exc = None
        code = 0
        self.clk0 = vnet.clk_floor()
        try:
            asyncio.set_event_loop_policy(pol)
            sys.argv = ["control_device.py"] + list(scn["argv"])
            with contextlib.redirect_stdout(out), contextlib.redirect_stderr(io.StringIO()):
                try:
                    runpy.run_path(script_path(), run_name="__main__")
                except SystemExit as x:
                    code = x.code if isinstance(x.code, int) else (0 if x.code is None else 1)
                except BaseException as x:  # noqa: BLE001 - how the process would have ended
                    exc = x
        finally:
            sys.argv = old_argv
            asyncio.set_event_loop_policy(old_pol)
        conn = self.net.conns[-1] if self.net.conns else None
        self._cli_event(conn)          # connected (or not) without writing anything
        text_out = out.getvalue()
        if exc is not None:
            kind = "runtime" if type(exc) is RuntimeError else "raise"
            self.log(ev="Ret", out=kind, exc=type(exc).__name__, ok=False, r={}, cli=True, code=1)
        elif code != 0:
            self.log(ev="Ret", out="raise", exc=f"SystemExit{code}", ok=False, r={}, cli=True, code=code)
        else:
            if "'successful': True" in text_out:
                ok = True
            elif "'successful': False" in text_out:
                ok = False
            else:
                ok = self.last_reply_nonempty      # the listing prints schedules only: nothing to read the flag from
            self.log(ev="Ret", out="return", exc="", ok=ok, r={}, cli=True, code=0)
        self.log(ev="Disc", how="leave", raised=False, flag=False, eof=bool(conn is not None and conn.closed_seen))
        for lp in pol.loops:
            if not lp.is_closed():
                lp.close()
        return self.ev


class DiscoverRun:
    """scripts/discover_devices.py run as a program: which ports it listens on for a protocol-type option and what it prints.
    scenario = {"argv": [...], "type": "1"|"2"|"all"|"", "dgrams": [{"p": port, "d": datagram description}]}"""

    def __init__(self, scn: dict):
        self.scn = scn
        self.net = vnet.VNet()
        self.bound: list[int] = []
        self.sent: list[dict] = []

    def _inject(self, loop):
        from .udpdrive import make_datagram
        self.bound = sorted(p for p, ep in self.net.udp.items() if not ep.closing)
        for it in self.scn["dgrams"]:
            data = make_datagram(it["d"])
            self.net.send_udp(loop, it["p"], data)
            self.sent.append({"p": it["p"], "b": list(data)})

    def go(self) -> list[dict]:
        import re
        from .udpdrive import live_types
        root = os.environ.get("VERIF_REPO") or "/repo"
        script = str(Path(root) / "scripts" / "discover_devices.py")
        run = self

        class Pol(_Policy):
            def new_event_loop(self_inner):
                loop = _Policy.new_event_loop(self_inner)
                loop.call_later(0.15, run._inject, loop)
                return loop
        pol = Pol(self.net)
        old_pol = asyncio.get_event_loop_policy()
        old_argv = sys.argv
        out = io.StringIO()
        exc = ""
        try:
            asyncio.set_event_loop_policy(pol)
            sys.argv = ["discover_devices.py"] + list(self.scn["argv"])
            with contextlib.redirect_stdout(out), contextlib.redirect_stderr(io.StringIO()):
                try:
                    runpy.run_path(script, run_name="__main__")
                except SystemExit:
                    pass
                except BaseException as x:  # noqa: BLE001
                    exc = type(x).__name__
        finally:
            sys.argv = old_argv
            asyncio.set_event_loop_policy(old_pol)
            for lp in pol.loops:
                if not lp.is_closed():
                    lp.close()
        printed = [list(m.encode()) for m in re.findall(r"'device_id': '([0-9a-fA-F]*)'", out.getvalue())]
        left = sorted(p for p, ep in self.net.udp.items() if not ep.closing)
        return [{"ev": "Types", "known": live_types()},
                {"ev": "Discover", "type": self.scn["type"], "bound": self.bound, "dgrams": self.sent, "printed": printed,
                 "exc": exc, "left": left}]


def run_discover(scn: dict) -> list[dict]:
    return DiscoverRun(scn).go()


class KeyScriptRun:
    """scripts/get_device_login_key.py run as a program.  It uses a blocking socket and the wall clock, so the seam is the
    socket constructor and the clock: a scripted datagram socket (datagrams with arrival times in ms after the start) and a
    clock that moves only while the script waits in recvfrom.
    scenario = {"ip": "10.0.0.5", "port": 10002, "dgrams": [{"at": ms, "src": ip, "d": datagram description | "raw": [...]}]}"""

    def __init__(self, scn: dict):
        self.scn = scn

    def go(self) -> list[dict]:
        import re
        import socket as _socket
        import time as _time
        from .udpdrive import make_datagram
        root = os.environ.get("VERIF_REPO") or "/repo"
        script = str(Path(root) / "scripts" / "get_device_login_key.py")
        scn = self.scn
        queue = [{"at": it["at"], "src": it["src"], "b": bytes(it["raw"]) if "raw" in it else make_datagram(it["d"])} for it in scn["dgrams"]]
        clock = [1790553600.0]
        t_start = clock[0]
        state = {"bound": [], "closed": 0, "opened": 0}

        class FakeSock:
            def __init__(self, family=None, kind=None, *a, **k):
                self.timeout = None
                state["opened"] += 1

            def bind(self, addr):
                state["bound"].append(addr[1])

            def settimeout(self, t):
                self.timeout = t

            def setsockopt(self, *a):
                pass

            def recvfrom(self, n):
                # the next datagram arrives at its time; if that is later than the socket waits, the wait ends first
                wait = self.timeout
                if wait is not None and wait < 0:
                    raise ValueError("Timeout value out of range")
                if queue:
                    due = t_start + queue[0]["at"] / 1000.0
                    if wait is None or due - clock[0] <= wait:
                        clock[0] = max(clock[0], due)
                        it = queue.pop(0)
                        return it["b"][:n], (it["src"], 20002)
                if wait is None:
                    raise KeyboardInterrupt("the script would wait for ever")
                clock[0] += wait
                raise _socket.timeout("timed out")

            def close(self):
                state["closed"] += 1

        real_socket, real_time = _socket.socket, _time.time
        out = io.StringIO()
        exc = ""
        old_argv = sys.argv
        try:
            _socket.socket = FakeSock
            def now():
                clock[0] += 0.0004          # reading the clock takes time: a loop that polls it always gets somewhere
                return clock[0]
            _time.time = now
            sys.argv = ["get_device_login_key.py", "-i", scn["ip"], "-p", str(scn["port"])]
            with contextlib.redirect_stdout(out), contextlib.redirect_stderr(io.StringIO()):
                try:
                    runpy.run_path(script, run_name="__main__")
                except SystemExit:
                    pass
                except BaseException as x:  # noqa: BLE001
                    exc = type(x).__name__
        finally:
            _socket.socket, _time.time = real_socket, real_time
            sys.argv = old_argv
        text_ = out.getvalue()
        printed = [list(m.encode()) for m in re.findall(r"Received device key: *([^\n]*)", text_)]
        return [{"ev": "KeyScript", "ip": list(scn["ip"].encode()), "port": scn["port"],
                 "dgrams": [{"at": it["at"], "src": list(it["src"].encode()), "b": list(bytes(it["raw"]) if "raw" in it else make_datagram(it["d"]))}
                            for it in scn["dgrams"]],
                 "bound": state["bound"], "printed": printed, "stopped": "Stopping the server." in text_,
                 "closed": state["closed"] >= state["opened"] > 0, "exc": exc, "waited": int(round((clock[0] - t_start) * 1000))}]


def run_keyscript(scn: dict) -> list[dict]:
    return KeyScriptRun(scn).go()


def run_scenario(scn: dict) -> list[dict]:
    with host_zone(scn.get("zone", "UTC")), frozen(scn["t0"]):
        return CliRun(scn).go()
