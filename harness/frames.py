"""Real client frames used as seeds (bit flips for C04): captured from the library itself
through the virtual device, so they follow whatever the current working tree writes."""
from __future__ import annotations

from binascii import unhexlify

# frames whose signature is pinned by the repository's own tests (see spec/Captures.tla)
_PINNED = [
    "fef052000232a10000000000340001000000000000000000ef8db35c00000000000000000000f0fe18"
    + "0" * 72 + "00" + "6ddd0cc0",
    "fef0300002320103010000003400010000000000000000" + "00ef8db35c00000000000000000000f0fea123bc0042a9a1b2",
]


def real_frames() -> list[bytes]:
    out = [unhexlify(x) for x in _PINNED]
    try:
        from .vnet import sample_frames
        out += sample_frames()
    except Exception:  # noqa: BLE001 - seeds only; never a verdict
        pass
    return out
