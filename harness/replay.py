"""spec -> code replay: the real objects are stepped through behaviours chosen by TLC (tlcgen) and after every action
the projection of their state is compared with the one the specification computed for that behaviour."""
from __future__ import annotations

import asyncio
import random

from . import vnet
from .udpdrive import CallbackBoom, make_datagram

PORTMAP = {1: 20002, 2: 10002, 3: 20003, 4: 10003}


def _datagram(cls: str, seq: int, rng: random.Random) -> bytes:
    from .props.bridge import rdev
    d = rdev(rng)
    d["id"] = [(seq >> 16) & 255, (seq >> 8) & 255, seq & 255]
    if cls == "valid":
        return make_datagram(d)
    if cls == "unknown":
        d["code"] = [0xEE, 0xEE]
        return make_datagram(d)
    if cls == "other":
        d["name"] = [0xFF, 0xFE, 0x41]
        return make_datagram(d)
    return make_datagram({"t": "random", "n": rng.choice([0, 7, 160, 165, 168]), "magic": "no", "seed": seq})


class BridgeReplay:
    """One behaviour of Gen_Bridge against a real SwitcherBridge on the virtual network, datagrams delivered by hand."""

    def __init__(self, beh: list[dict], seed: int):
        self.beh = beh
        self.rng = random.Random(seed)
        self.net = vnet.VNet()
        self.loop = vnet.VLoop(self.net, vtime=True)
        self.delivered: dict[int, list[int]] = {}
        self.queues: dict[int, list[tuple[int, str, bytes]]] = {}
        self.others: set[int] = set()
        self.mismatch: list[dict] = []
        self.fail_callback = False

    def on_device(self, dev):
        seq = int(dev.device_id, 16)
        self.delivered.setdefault(self.cur_port, []).append(seq)
        if self.fail_callback:
            raise CallbackBoom("user callback failed")

    def run(self) -> list[dict]:
        try:
            self.loop.run_until_complete(self._main())
        finally:
            self.loop.close()
        return self.mismatch

    async def _main(self):
        from aioswitcher.bridge import SwitcherBridge
        nports = len(self.beh[0]["exp"]["delivered"])
        ports = [PORTMAP[k] for k in range(1, nports + 1)]
        inv = {v: k for k, v in PORTMAP.items()}
        bridge = SwitcherBridge(self.on_device, ports)
        task = None
        on_running = False
        limbo = False
        self.cur_port = 0
        nsent = 0
        for n, st in enumerate(self.beh):
            a, p = st["a"], PORTMAP.get(st["p"], 0)
            if a == "StartBegin":
                on_running = bool(bridge.is_running)      # start() on a running bridge: whether it raises is left open
                task = asyncio.ensure_future(bridge.start())
            elif a in ("StartPort", "StartDone"):
                await asyncio.sleep(0)
                if st["exp"]["at"] == 0:
                    # the start has finished in the specification: let the real one finish too, however many awaits it takes
                    for _ in range(40):
                        if task is None or task.done():
                            break
                        await asyncio.sleep(0)
            elif a == "Stop":
                try:
                    await vnet.bounded(bridge.stop())
                except Exception as x:  # noqa: BLE001 - stop() is safe in every state: an exception is a mismatch, not a harness failure
                    self.mismatch.append({"step": n, "action": a, "what": "running-flag", "expected": "stop() returns", "observed": "raised " + type(x).__name__})
                    break
                self.queues = {}
            elif a == "Cycle":
                await vnet.settle(2)
            elif a == "Occupy":
                self.net.occupied.add(p)
            elif a == "Free":
                self.net.occupied.discard(p)
            elif a == "Send":
                nsent += 1
                data = _datagram(st["cls"], nsent, self.rng)
                if st["cls"] == "other":
                    self.others.add(nsent)
                ep = self.net.udp.get(p)
                if ep is not None and not ep.closing:
                    self.queues.setdefault(p, []).append((nsent, st["cls"], data))
            elif a == "Receive":
                q = self.queues.get(p, [])
                if q:
                    seq, cls, data = q.pop(0)
                    ep = self.net.udp.get(p)
                    self.cur_port = p
                    self.fail_callback = self.rng.random() < 0.25       # the user's callback may fail on any invocation
                    if ep is not None and not ep.closing:
                        self.loop.call_soon(vnet.VNet._deliver, ep, data)
                    await vnet.settle(8)          # a bridge may hand the datagram over in a later loop cycle
                    self.fail_callback = False
            exp = st["exp"]
            if task is not None and task.done():
                raised = task.exception() is not None
                if exp["at"] == 0 and a in ("StartPort", "StartDone"):
                    if raised != bool(exp["raised"]) and not on_running:
                        self.mismatch.append({"step": n, "action": a, "what": "start-raised", "expected": exp["raised"], "observed": raised})
                    task = None
            got_listening = sorted(inv[q] for q in ports if q in self.net.udp and not self.net.udp[q].closing)
            got_closing = sorted(inv[q] for q in ports if q in self.net.udp and self.net.udp[q].closing)
            checks = [("running-flag", bool(exp["running"]), bool(bridge.is_running)),
                      ("listening-ports", sorted(exp["bound"]), got_listening),
                      ("ports-being-released", sorted(exp["closing"]), got_closing)]
            for k in range(nports):
                want = [s for s in exp["delivered"][k] if s not in self.others]
                got = [s for s in self.delivered.get(PORTMAP[k + 1], []) if s not in self.others]
                checks.append((f"delivered-port-{k + 1}", want, got))
            if exp["at"] != 0:
                checks = []           # inside start(): not compared (see Gen_Bridge)
            if a == "StartPort" and exp["at"] == 0 and exp["raised"]:
                limbo = True          # a start failed: what it may have opened and closed on the way is released at the next cycle
            elif a == "Cycle":
                limbo = False
            if limbo:
                checks = [c for c in checks if c[0] != "ports-being-released"]
            for what, want, got in checks:
                if what == "ports-being-released" and set(got) <= set(want):
                    continue          # released earlier than promised (a stop() that waits for its sockets) is fine
                if want != got:
                    self.mismatch.append({"step": n, "action": a, "what": what, "expected": want, "observed": got})
            if self.mismatch:
                break
        if task is not None and not task.done():
            task.cancel()
        try:
            await vnet.bounded(bridge.stop())
        except Exception:  # noqa: BLE001
            pass
        await vnet.settle(3)


def replay_bridge(behs: list[list[dict]], seed: int) -> list[dict]:
    out = []
    for k, b in enumerate(behs):
        mm = BridgeReplay(b, seed + k).run()
        for m in mm:
            m["behaviour"] = k
        out.extend(mm)
    return out
