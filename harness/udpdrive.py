"""Drives the real SwitcherBridge on the virtual network (in-memory datagram endpoints handed out by
VLoop.create_datagram_endpoint) and records the events Trace_Bridge judges.

scenario = {"ports": [..], "steps": [step, ...]}   step =
   {"do": "start"|"enter"|"stop"|"leave"|"leave-exc"|"cycle"|"occupy"|"free", "p": port}
   {"do": "dgram", "p": port, "d": <datagram descriptor>, "cbraise": bool}
Datagram descriptors are turned into bytes by make_datagram(); none of that is trusted: TLC
classifies and decodes every datagram itself.
"""
from __future__ import annotations

import asyncio
import logging
import os
import random
import warnings
from binascii import unhexlify

from . import enums, vnet
from .clock import text

T1 = {"heater", "plug"}
CODES = {"MINI": "030f", "POWER_PLUG": "01a8", "TOUCH": "030b", "V2_ESP": "01a7", "V2_QCA": "01a1", "V4": "0317",
         "BREEZE": "0e01", "RUNNER": "0c01", "RUNNER_MINI": "0c02"}
FAM = {"MINI": "heater", "POWER_PLUG": "plug", "TOUCH": "heater", "V2_ESP": "heater", "V2_QCA": "heater", "V4": "heater",
       "BREEZE": "thermo", "RUNNER": "shutter", "RUNNER_MINI": "shutter"}
FAMLEN = {"heater": 165, "plug": 165, "thermo": 168, "shutter": 159}


class CallbackBoom(Exception):
    pass


class CallbackBase(BaseException):
    """What a user's callback may also end with: not an Exception (like CancelledError from a cancelled future's .result())."""


USER_EXC = {"key": KeyError, "value": ValueError, "index": IndexError, "attr": AttributeError, "type": TypeError,
            "runtime": RuntimeError, "lookup": LookupError, "os": OSError, "assert": AssertionError}
KINDS = ["exc", "base", "cancelled"] + sorted(USER_EXC)


def _boom(kind):
    if kind == "base":
        raise CallbackBase("user callback failed")
    if kind == "cancelled":
        raise asyncio.CancelledError()
    # the exceptions ordinary user code ends with (a dict lookup for a device not registered yet, ...): the very types a
    # parser may also catch for its own purposes - it must not mistake the user's for its own
    if kind in USER_EXC:
        raise USER_EXC[kind]("user callback failed")
    raise CallbackBoom("user callback failed")


def _boom_name(kind) -> str:
    if not kind:
        return ""
    return {"base": "CallbackBase", "cancelled": "CancelledError"}.get(kind) or (USER_EXC[kind].__name__ if kind in USER_EXC else "CallbackBoom")


def make_datagram(d: dict) -> bytes:
    t = d["t"]
    rng = random.Random(d.get("seed", 7))
    if t == "raw":
        return bytes(d["b"])
    if t == "random":
        b = bytearray(rng.randbytes(d["n"]))
        if d.get("magic") == "yes" and d["n"] >= 2:
            b[0:2] = b"\xfe\xf0"
        elif d.get("magic") == "near" and d["n"] >= 2:
            b[0:2] = rng.choice([b"\xfe\xf1", b"\xff\xf0", b"\xf0\xfe", b"\xfe\x00", b"\x00\xf0", b"FE"])
        elif d["n"] >= 2 and b[0:2] == b"\xfe\xf0":
            b[0] = 0
        return bytes(b)
    if t == "bc":
        fam = d["fam"]
        n = d.get("len", FAMLEN[fam])
        b = bytearray(rng.randbytes(max(n, 170)))
        b[0:2] = b"\xfe\xf0"
        b[2:4] = n.to_bytes(2, "little")
        b[18:21] = bytes(d["id"])
        b[40] = d["key"]
        nm = bytes(d["name"])
        b[42:74] = nm + b"\x00" * (32 - len(nm))
        b[74:76] = bytes(d["code"])
        if fam in T1:
            b[76:80] = bytes(d["ip"])
            b[80:86] = bytes(d["mac"])
            b[133] = d["state"]
            b[135:137] = int(d["watts"]).to_bytes(2, "little")
            b[147:151] = int(d.get("remaining", 0)).to_bytes(4, "little")
            b[155:159] = int(d.get("auto", 0)).to_bytes(4, "little")
        else:
            b[77:81] = bytes(d["ip"])
            b[81:87] = bytes(d["mac"])
            if fam == "thermo":
                b[135:137] = int(d["temp10"]).to_bytes(2, "little")
                b[137] = d["state"]
                b[138] = d["mode"]
                b[139] = d["target"]
                b[140] = (d["fan"] << 4) | d["swing"]
                b[143:151] = bytes(d["remote"])
            else:
                b[135] = d["position"]
                b[136] = d.get("pos_hi", 0)
                b[137:139] = bytes(d["direction"])
        out = bytearray(b[:n])
        for off, val in d.get("set", []):
            if off < len(out):
                out[off] = val
        return bytes(out)
    if t == "mutate":
        b = bytearray(make_datagram(d["of"]))
        if "cut" in d:
            b = b[: max(0, len(b) - d["cut"])]
        if "extend" in d:
            b += rng.randbytes(d["extend"])
        for off, val in d.get("set", []):
            if off < len(b):
                b[off] = val
        return bytes(b)
    raise ValueError(t)


_MODE = {"01": 1, "02": 2, "03": 3, "04": 4, "05": 5}


def device_fields(dev) -> dict:
    g = {"cls": type(dev).__name__, "type": dev.device_type.name, "id": text(dev.device_id), "key": text(dev.device_key),
         "ip": text(dev.ip_address), "mac": text(dev.mac_address), "name": text(dev.name),
         "state": enums.state(dev.device_state)}
    if hasattr(dev, "power_consumption"):
        g["watts"] = enums.integer(dev.power_consumption)
        g["amps10"] = enums.tenths(dev.electric_current)
    if hasattr(dev, "remaining_time"):
        g["remaining"] = text(dev.remaining_time)
        g["auto"] = text(dev.auto_shutdown)
    if hasattr(dev, "mode"):
        g.update(mode=enums.mode(dev.mode), temp10=enums.tenths(dev.temperature), target=enums.integer(dev.target_temperature),
                 fan=enums.fan(dev.fan_level), swing=enums.swing(dev.swing), remote=text(dev.remote_id))
    if hasattr(dev, "position"):
        g.update(position=enums.integer(dev.position), direction=enums.direction(dev.direction))
    return g


def live_types() -> list[dict]:
    from aioswitcher.device import DeviceType
    return [{"code": list(unhexlify(t.hex_rep)), "name": t.name, "cat": t.category.name} for t in DeviceType]


class _LogCount(logging.Handler):
    def __init__(self):
        super().__init__(level=logging.WARNING)
        self.n = 0

    def emit(self, record):
        self.n += 1


_bounded = vnet.bounded


class _Registry(dict):
    """A device registry used as the callback: a dict subclass (empty, hence falsy, when the bridge is built) that is callable."""

    def __init__(self, sink):
        super().__init__()
        self._sink = sink

    def __call__(self, dev):
        self[getattr(dev, "device_id", None)] = dev
        return self._sink(dev)


class _Listener:
    """A listener object with a length (no device seen yet: falsy) and a __call__."""

    def __init__(self, sink):
        self._sink = sink
        self.seen = []

    def __len__(self):
        return len(self.seen)

    def __call__(self, dev):
        try:
            return self._sink(dev)
        finally:
            self.seen.append(dev)


def callback_shape(kind: int, sink):
    """The user's callback is any callable: a bound method, a function, a partial, a callable container, a listener object."""
    import functools
    k = kind % 5
    if k == 0:
        return sink
    if k == 1:
        return lambda dev: sink(dev)
    if k == 2:
        return functools.partial(sink)
    if k == 3:
        return _Registry(sink)
    return _Listener(sink)


class BridgeRun:
    def __init__(self, scn: dict):
        self.scn = scn
        self.ev: list[dict] = []
        self.net = vnet.VNet()
        self.loop = vnet.VLoop(self.net, vtime=True)      # virtual clock: quiet minutes or hours between datagrams cost no real time
        self.cur = None            # datagram being processed
        self.got: list[dict] = []
        self.raise_next = False
        self.warn_n = 0
        self.keepalive: list = []        # the user keeps the device objects it was handed
        self.burst: dict | None = None   # tag -> {"got": [...], "raise": bool}; deliveries attributed by the device id
        self.order: list[tuple[int, int]] = []
        self.ntag = 0
        self.after_stop = False
        self.stop_task = None
        self._old_loops: list = []

    def log(self, **e):
        self.ev.append(e)

    def on_device2(self, dev):
        return self.on_device(dev, 2)

    def on_device(self, dev, br: int = 1):
        try:
            g = device_fields(dev)
        except Exception as x:  # noqa: BLE001
            g = {"cls": "unreadable:" + type(x).__name__}
        g["br"] = br
        self.keepalive.append(dev)
        # the object is the user's now: it keeps it, renames it, does its own bookkeeping on it.  What the NEXT broadcast is
        # delivered as must not depend on that (a decoder that hands out the object of an earlier, identical broadcast again)
        for attr, val in (("name", "renamed by the user"), ("ip_address", "0.0.0.0"), ("device_state", None), ("device_key", "zz"),
                          ("remaining_time", "never"), ("position", -1), ("target_temperature", -1)):
            if hasattr(dev, attr):
                try:
                    setattr(dev, attr, val)
                except Exception:  # noqa: BLE001 - an immutable device object is as good
                    pass
        if self.burst is not None:
            tag = int(dev.device_id, 16) if isinstance(getattr(dev, "device_id", None), str) and len(dev.device_id) == 6 else -1
            item = self.burst.get(tag)
            if item is None or self.after_stop:
                self.strays.append({"ev": "Stray", "dev": g, "after_stop": self.after_stop})
            else:
                item["got"].append(g)
                self.order.append((item["p"], tag))
            if item is not None and item["raise"]:
                _boom(item["raise"])
            return
        if self.cur is None:
            self.log(ev="Stray", dev=g, after_stop=False)
        else:
            self.got.append(g)
            if self.cur.get("cbstop") and self.stop_task is None:
                # "found my device, stop listening": the user's callback stops the bridge (stop() is a coroutine: scheduled)
                self.stop_task = asyncio.ensure_future(self.bridges[br - 1].stop())
        if self.raise_next:
            _boom(self.raise_next)

    def go(self) -> list[dict]:
        h = _LogCount()
        lg = logging.getLogger("aioswitcher")
        lg.addHandler(h)
        self.logh = h
        try:
            with warnings.catch_warnings():
                warnings.simplefilter("always")
                old = warnings.showwarning

                def show(message, category, filename, lineno, file=None, line=None):
                    if "aioswitcher" in str(filename):
                        self.warn_n += 1
                warnings.showwarning = show
                from .clock import host_zone
                zone_cm = host_zone(self.scn.get("zone", os.environ.get("TZ") or "UTC"))
                zone_cm.__enter__()
                try:
                    # {"do": "newloop"} ends the program's first asyncio.run() and begins another: the same bridge object, stopped
                    # by then, is used again under a different event loop ("close": the old loop is closed first, as run() does)
                    segs: list[list[dict]] = [[]]
                    for st in self.scn["steps"]:
                        if st["do"] == "newloop":
                            segs.append([st])
                        else:
                            segs[-1].append(st)
                    for n, seg in enumerate(segs):
                        if n > 0:
                            if seg[0].get("close", True):
                                self.loop.close()
                            else:
                                self._old_loops.append(self.loop)
                            self.loop = vnet.VLoop(self.net, vtime=True)
                            seg = seg[1:]
                        self.loop.run_until_complete(self._main(seg, n == 0))
                finally:
                    zone_cm.__exit__(None, None, None)
                    warnings.showwarning = old
        finally:
            lg.removeHandler(h)
            for lp in self._old_loops + [self.loop]:
                if not lp.is_closed():
                    lp.close()
        return self.ev

    def obs(self, bridge, ports):
        for k, b in enumerate(self.bridges):
            mine = {id(t) for t in getattr(b, "_transports", {}).values()} if False else None
            own = self.owned[k]
            listening = [p for p in ports if p in self.net.udp and not self.net.udp[p].closing and self.net.udp[p] in own]
            bindable = [p for p in ports if p not in self.net.udp and p not in self.net.occupied and 0 <= p <= 65535]
            self.log(ev="Obs", br=k + 1, running=bool(b.is_running), listening=listening, bindable=bindable)

    async def _main(self, steps=None, first=True):
        from aioswitcher.bridge import SwitcherBridge
        scn = self.scn
        ports = list(scn["ports"])
        allports = sorted(set(ports) | set(scn.get("ports2", [])) | set(scn.get("extra_ports", [])))
        if first:
            self.log(ev="Types", known=live_types())
            shape = scn.get("cb", scn.get("tid", 0))
            bridge = SwitcherBridge(callback_shape(shape, self.on_device), ports)
            self.bridges = [bridge]
            self.owned: list[set] = [set()]
            self.log(ev="New", br=1, ports=ports)
            if "ports2" in scn:
                self.bridges.append(SwitcherBridge(callback_shape(shape + 2, self.on_device2), list(scn["ports2"])))
                self.owned.append(set())
                self.log(ev="New", br=2, ports=list(scn["ports2"]))
            self.obs(bridge, allports)
        for st in (scn["steps"] if steps is None else steps):
            do = st["do"]
            br = st.get("br", 1)
            bridge = self.bridges[br - 1]
            before = set(self.net.udp.values())
            if do in ("start", "enter"):
                # a start is always preceded by a loop cycle: "start() back to back with stop(), without yielding to the
                # loop" is outside the statement's alphabet (ports are promised to be free once the loop has cycled)
                await vnet.settle(2)
                self.log(ev="Cycle")
                try:
                    if do == "start":
                        await _bounded(bridge.start())
                    else:
                        await _bounded(bridge.__aenter__())
                    self.log(ev="Start", br=br, how=do, ok=True, exc="")
                except Exception as x:  # noqa: BLE001
                    self.log(ev="Start", br=br, how=do, ok=False, exc=type(x).__name__)
                self.owned[br - 1] |= set(self.net.udp.values()) - before      # endpoints this bridge object opened
            elif do == "start-cancelled":
                await vnet.settle(2)
                self.log(ev="Cycle")
                before_n = len(self.net.udp)
                task = asyncio.ensure_future(bridge.start())
                for _ in range(st["k"]):
                    await asyncio.sleep(0)
                done_before = task.done()
                task.cancel()
                await vnet.settle(2)
                self.owned[br - 1] |= set(self.net.udp.values()) - before
                if done_before:
                    # the start had already finished (or failed) before the cancellation could hit it
                    ok = task.exception() is None if not task.cancelled() else False
                    self.log(ev="Start", br=br, how="start", ok=bool(ok), exc="" if ok else "raised")
                else:
                    nb = len([e for e in set(self.net.udp.values()) - before if not e.closing])
                    self.log(ev="StartCancelled", br=br, k=st["k"], n=nb)
            elif do in ("stop", "leave", "leave-exc"):
                try:
                    if do == "stop":
                        await _bounded(bridge.stop())
                    elif do == "leave":
                        await _bounded(bridge.__aexit__(None, None, None))
                    else:
                        e = ValueError("body failed")
                        await _bounded(bridge.__aexit__(ValueError, e, None))
                    self.log(ev="Stop", br=br, how=do, raised=False)
                except Exception as x:  # noqa: BLE001
                    self.log(ev="Stop", br=br, how=do, raised=True, exc=type(x).__name__)
            elif do == "cycle":
                await vnet.settle(3)
                self.log(ev="Cycle")
            elif do == "wait":
                # nothing arrives for a while (milliseconds ... hours on the loop's virtual clock): whatever timer anybody set fires now
                await asyncio.sleep(st["s"])
                await vnet.settle(3)
                self.log(ev="Cycle")
            elif do == "neterr":
                # the OS reports an error on one of the sockets (asyncio calls protocol.error_received)
                ep = self.net.udp.get(st["p"])
                handed = ep is not None and not ep.closing
                x0 = len(self.loop.exceptions)
                if handed:
                    self.loop.call_soon(ep.protocol.error_received, OSError(111, "Connection refused") if st.get("exc", True) else None)
                await vnet.settle(2)
                self.log(ev="NetErr", p=st["p"], handed=bool(handed), raised=len(self.loop.exceptions) > x0)
                self.log(ev="Cycle")
            elif do == "occupy":
                if st["p"] in self.net.udp or st["p"] in self.net.occupied:
                    continue
                self.net.occupied.add(st["p"])
                self.log(ev="Occupy", p=st["p"])
            elif do == "free":
                self.net.occupied.discard(st["p"])
                self.log(ev="Free", p=st["p"])
            elif do == "burst":
                # several datagrams handed to the sockets back to back, then `yields` loop cycles, then (optionally) stop()
                self.burst = {}
                self.strays = []
                self.order = []
                self.after_stop = False
                sent = []
                for it in st["items"]:
                    d = it["d"]
                    self.ntag += 1
                    tag = self.ntag
                    if d.get("t") == "bc":
                        d = dict(d, id=[(tag >> 16) & 255, (tag >> 8) & 255, tag & 255])
                    elif d.get("t") == "mutate" and d["of"].get("t") == "bc":
                        d = dict(d, of=dict(d["of"], id=[(tag >> 16) & 255, (tag >> 8) & 255, tag & 255]))
                    data = make_datagram(d)
                    self.burst[tag] = {"got": [], "raise": it.get("cbraise") or False, "p": it["p"]}
                    handed = self.net.send_udp(self.loop, it["p"], data)
                    sent.append((tag, it, data, handed))
                await vnet.settle(st.get("yields", 3))
                stopped = False
                if st.get("then") == "stop":
                    stop_exc = ""
                    try:
                        await _bounded(bridge.stop())
                    except Exception as x:  # noqa: BLE001 - judged by the specification (stop() is safe in every state)
                        stop_exc = type(x).__name__
                    stopped = True
                    self.after_stop = True
                await vnet.settle(10)
                for tag, it, data, handed in sent:
                    self.log(ev="Dgram", p=it["p"], b=list(data), handed=bool(handed), cbraise=bool(it.get("cbraise")),
                             delivered=self.burst[tag]["got"], warns=0, logs=0, excs=[], burst=True, cut=stopped)
                for p in sorted({it["p"] for _, it, _, _ in sent}):
                    self.log(ev="Order", p=p, seqs=[t for (q, t) in self.order if q == p])
                self.burst = None
                self.after_stop = False
                for x in self.strays:
                    if not x["after_stop"]:
                        self.ev.append(x)
                if stopped:
                    self.log(ev="Stop", how="stop", raised=bool(stop_exc), exc=stop_exc)
                for x in self.strays:
                    if x["after_stop"]:
                        self.ev.append(x)
                self.log(ev="Cycle")
            elif do == "dgram":
                data = make_datagram(st["d"])
                w0, l0, x0 = self.warn_n, self.logh.n, len(self.loop.exceptions)
                self.got = []
                self.cur = st
                self.raise_next = st.get("cbraise") or False
                handed = self.net.send_udp(self.loop, st["p"], data)
                await vnet.settle(8)            # a bridge may hand the datagram over in a later loop cycle
                self.cur = None
                self.raise_next = False
                excs = []
                for c in self.loop.exceptions[x0:]:
                    ex = c.get("exception")
                    excs.append(type(ex).__name__ if ex is not None else "context:" + str(c.get("message"))[:40])
                self.log(ev="Dgram", p=st["p"], b=list(data), handed=bool(handed), cbraise=bool(st.get("cbraise")),
                         cbexc=_boom_name(st.get("cbraise")), delivered=self.got, warns=self.warn_n - w0, logs=self.logh.n - l0, excs=excs, burst=False, cut=False)
                if self.stop_task is not None:      # the callback stopped the bridge: the stop ran (and the loop cycled) meanwhile
                    task, self.stop_task = self.stop_task, None
                    try:
                        await _bounded(task)
                        self.log(ev="Stop", br=br, how="stop", raised=False)
                    except Exception as x:  # noqa: BLE001
                        self.log(ev="Stop", br=br, how="stop", raised=True, exc=type(x).__name__)
                    await vnet.settle(2)
                    self.log(ev="Cycle")
                    self.obs(bridge, allports)
                    continue
                self.log(ev="Cycle")       # processing a datagram lets the loop cycle
                continue
            self.obs(bridge, allports)
        await vnet.settle(3)


def run_scenario(scn: dict) -> list[dict]:
    return BridgeRun(scn).go()
