"""Clock strings that are not an HH:MM time (shared by C02, C10, C11): every one must be refused.
Blanks AROUND an otherwise proper text and one-digit fields are lenient spellings the statement leaves open (LENIENT);
texts in other digit scripts are not used at all (the platform's own parser reads them as numbers)."""

MALFORMED = ["", ":", "2100", "21", "21:", ":00", "24:00", "23:60", "99:99", "ab:cd", "21:0x", "2a:00", "21:00:33",
             "21:00:", "21:00:00:00", "-1:00", "21:-5", "21.00", "21;00", "xx:yy", "1e:00", "0x10:00", "21:00pm",
             "25:61", "100:00", "21:000", "שש:00", "12:3é", "::", "21::00", "21:00:xx", "1:2:3", "+1:00", "1 2:00",
             # spellings that number parsers other than %H:%M tolerate: signs, digit separators, blanks inside the text, exponents, floats
             "+7:30", "07:+30", "-0:30", "1_8:00", "19:3_0", "1_2:3_0", "18 :00", "18: 00", "12:3 0", "19:\n5", "1\t2:00", "12:\t30",
             "7.0:30", "12:30.0", "0b1:00", "12:0o7", "1e1:00", "12:1e1", "²1:00", "12:³0", "½:30", "inf:00", "nan:00", "12:nan"]
LENIENT = ["9:05", "09:5", "9:5", " 09:05", "0:0", "23:5", "09:05 ", "\t09:05", "7:7"]
