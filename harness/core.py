"""The check runner shared by all properties.

A property check is a `Prop` subclass that says
  * which model-checking runs belong to it            (mc_runs)
  * how to produce scenario descriptors               (scenarios)
  * how to execute one scenario against the real code (execute) -> list of events
  * which trace specification judges the events       (trace_module)
  * which failing clauses it owns                     (owns)
The runner does the rest: TLC model checking, TLC trace validation, clause
ownership, known findings, evidence, replay files, exit code.
"""

from __future__ import annotations

import hashlib
import json
import os
import random
import sys
import time
import traceback
from pathlib import Path

from . import tlc
from .tlc import Machinery

ROOT = Path(__file__).resolve().parent.parent
_SCRATCH = bool(os.environ.get("VERIF_REPO"))     # seeded-change experiments never overwrite the real evidence
EVID = (ROOT / ".work" / "evidence") if _SCRATCH else ROOT / "evidence"
REPLAYS = (ROOT / ".work" / "replays") if _SCRATCH else ROOT / "replays"
FINDINGS = ROOT / "known_findings.json"


class Ctx:
    def __init__(self, tier: str, seed: int):
        self.tier = tier
        self.seed = seed
        self.rng = random.Random(seed)
        self.quick = tier == "quick"

    def pick(self, quick, thorough):
        return quick if self.quick else thorough


class Prop:
    id: str = "C00"
    title: str = ""
    trace_module: str = ""
    trace_cfg: str | None = None
    assumptions: list[str] = []
    rule: str = ""
    exhaustive = False
    shards = 16

    # ---- to be provided by subclasses -------------------------------------
    def mc_runs(self, ctx: Ctx) -> list[dict]:
        """[{module, cfg, need_actions, workers, timeout, coverage}]"""
        return []

    def scenarios(self, ctx: Ctx) -> list[dict]:
        raise NotImplementedError

    def execute(self, scn: dict) -> list[dict]:
        """Run one scenario against the real library; return its events (without tid/k)."""
        raise NotImplementedError

    def execute_all(self, ctx: Ctx, scns: list[dict]) -> list[list[dict]]:
        out = []
        for s in scns:
            evs = self.execute(s)
            for k, e in enumerate(evs):
                e["tid"] = s["tid"]
                e["k"] = k
            out.append(evs)
        return out

    def owns(self, clause: str) -> bool:
        return clause.startswith(self.id + ":")

    def nontrivial(self, ev: dict) -> bool:
        return True

    def trace_env(self, ctx: Ctx) -> dict:
        return {}

    def extra_coverage(self, ctx: Ctx) -> dict:
        return {}


def _canon(ev: dict) -> str:
    d = {k: v for k, v in ev.items() if k not in ("tid", "k")}
    return json.dumps(d, sort_keys=True, separators=(",", ":"))


def _load_findings() -> list[dict]:
    if FINDINGS.exists():
        return json.loads(FINDINGS.read_text()).get("findings", [])
    return []


def _match_value(spec, val) -> bool:
    if isinstance(spec, dict):
        for op, ref in spec.items():
            if op == "lt" and not (val is not None and val < ref):
                return False
            if op == "gt" and not (val is not None and val > ref):
                return False
            if op == "in" and val not in ref:
                return False
            if op == "ne" and val == ref:
                return False
        return True
    return spec == val


def _finding_for(prop_id: str, clause: str, ev: dict, findings: list[dict]):
    for f in findings:
        if f.get("status") != "known" or f.get("property") != prop_id:
            continue
        m = f.get("match", {})
        if m.get("clause") != clause:
            continue
        where = m.get("where", {})
        if all(_match_value(spec, ev.get(field)) for field, spec in where.items()):
            return f
    return None


def run_check(prop: Prop, tier: str, seed: int, replay: str | None = None) -> int:
    t0 = time.time()
    ctx = Ctx(tier, seed)
    print(f"== {prop.id} {prop.title} [tier={tier} seed={seed}]", flush=True)
    try:
        return _run(prop, ctx, t0, replay)
    except Machinery as m:
        print(f"MACHINERY-FAILURE property={prop.id}: {m}", flush=True)
        return 2
    except Exception:
        traceback.print_exc()
        print(f"MACHINERY-FAILURE property={prop.id}: unexpected exception in the harness", flush=True)
        return 2


def _run(prop: Prop, ctx: Ctx, t0: float, replay: str | None) -> int:
    if not replay and REPLAYS.exists():
        for old in REPLAYS.glob(f"{prop.id}-*.json"):
            old.unlink()
    # 1. model checking of the specification itself ---------------------------------
    mcs = []
    if not replay:
        for r in prop.mc_runs(ctx):
            res = tlc.run_mc(
                r["module"], r.get("cfg"), workers=r.get("workers", 16), timeout=r.get("timeout", 900),
                coverage=r.get("coverage", False), simulate=r.get("simulate"), depth=r.get("depth"),
                env=r.get("env"), seed=ctx.seed if r.get("simulate") else None,
            )
            if res["violated"]:
                raise Machinery(
                    f"the specification's own model {r['module']}/{res['cfg']} violates {res['violated']} - "
                    "the model is wrong, not the code:\n" + res["out_tail"]
                )
            tlc.require_mc(res, tuple(r.get("need_actions", ())))
            mcs.append(tlc.mc_summary(res))
            print(f"   model {res['module']}/{res['cfg']}: {res.get('states')} distinct states, "
                  f"{res.get('transitions')} generated, {res['wall_s']} s", flush=True)

    # 2. drive the real code ----------------------------------------------------------
    if replay:
        rp = json.loads(Path(replay).read_text())
        scns = [rp["scenario"]]
    else:
        scns = prop.scenarios(ctx)
    for n, s in enumerate(scns):
        s.setdefault("tid", n + 1)
    t1 = time.time()
    runs = prop.execute_all(ctx, scns)
    drive_s = time.time() - t1
    by_key: dict[tuple, dict] = {}
    for evs in runs:
        for e in evs:
            by_key[(e["tid"], e["k"])] = e
    scn_by_tid = {s["tid"]: s for s in scns}
    n_events = sum(len(r) for r in runs)
    print(f"   drove the library: {len(scns)} scenarios, {n_events} events, {drive_s:.1f} s", flush=True)

    # 3. TLC judges the recorded behaviour -----------------------------------------
    t2 = time.time()
    v = tlc.validate(prop.trace_module, runs, cfg=prop.trace_cfg, shards=prop.shards, env=prop.trace_env(ctx))
    print(f"   TLC validated {v['n_events']} events in {v['shards']} shard(s): "
          f"{len(v['bad'])} rejected, {time.time() - t2:.1f} s", flush=True)
    if v["invariants_violated"]:
        # an invariant of the specification failed along a recorded behaviour
        v["bad"].append({"tid": 0, "k": 0, "ev": "-", "why": [f"{prop.id}:invariant:{x}" for x in v["invariants_violated"]]})

    # 4. ownership, known findings ----------------------------------------------------
    findings = _load_findings()
    own: list[dict] = []
    foreign: dict[str, int] = {}
    known_hits: dict[str, int] = {}
    for b in v["bad"]:
        ev = by_key.get((b["tid"], b["k"]), {})
        mine = []
        for c in b["why"]:
            if prop.owns(c):
                f = _finding_for(prop.id, c, ev, findings)
                if f:
                    known_hits[f["id"]] = known_hits.get(f["id"], 0) + 1
                else:
                    mine.append(c)
            else:
                foreign[c] = foreign.get(c, 0) + 1
        if mine:
            own.append({**b, "why": mine})

    # 5. report -------------------------------------------------------------------------
    for f in findings:
        if f.get("status") == "known" and f.get("property") == prop.id and f["id"] in known_hits:
            print(f"KNOWN-FINDING: property={prop.id} {f['text']} ({known_hits[f['id']]} events)", flush=True)
    rc = 0
    replay_paths = []
    if own:
        REPLAYS.mkdir(parents=True, exist_ok=True)
        seen_clause: set[str] = set()
        for b in own:
            key = b["why"][0]
            if key in seen_clause and len(replay_paths) >= 5:
                continue
            seen_clause.add(key)
            scn = scn_by_tid.get(b["tid"], {})
            evs = [e for e in next((r for r in runs if r and r[0]["tid"] == b["tid"]), [])]
            body = {"property": prop.id, "tier": ctx.tier, "seed": ctx.seed, "clauses": b["why"],
                    "event_index": b["k"], "scenario": scn, "events": evs}
            dig = hashlib.sha1(json.dumps(body, sort_keys=True, default=str).encode()).hexdigest()[:12]
            path = REPLAYS / f"{prop.id}-{dig}.json"
            path.write_text(json.dumps(body, indent=1, default=str))
            replay_paths.append(str(path))
            print(f"VIOLATION property={prop.id} replay={path}", flush=True)
            print(f"   clauses={b['why']} scenario tid={b['tid']} event k={b['k']} ({b['ev']})", flush=True)
            if len(replay_paths) >= 12:
                break
        rc = 1

    # 6. evidence -------------------------------------------------------------------------
    distinct: set[str] = set()
    nontriv = 0
    for evs in runs:
        for e in evs:
            c = _canon(e)
            if c not in distinct:
                distinct.add(c)
                if prop.nontrivial(e):
                    nontriv += 1
    samples = []
    for evs in runs[:: max(1, len(runs) // 3)][:3]:
        samples.append(_shorten(evs[:6]))
    cov = {
        "states": sum(m.get("states") or 0 for m in mcs) + v["states"],
        "transitions": sum(m.get("transitions") or 0 for m in mcs) + v["transitions"],
        "traces_validated_against_impl": v["n_scenarios"],
        "events_validated_against_impl": v["n_events"],
        "samples": samples,
        "evaluations": n_events,
        "distinct_nontrivial": nontriv,
        "rule": prop.rule,
        "exhaustive": bool(prop.exhaustive),
        "model_runs": mcs,
        "trace_spec": prop.trace_module,
        "trace_states": v["states"],
        "spec_branches_exercised": v["tags"],
        "rejected_events": len(v["bad"]),
        "own_violations": len(own),
        "foreign_clauses": foreign,
        "known_findings_hit": known_hits,
    }
    cov.update(prop.extra_coverage(ctx))
    ev = {
        "property_id": prop.id,
        "tier": ctx.tier,
        "seed": ctx.seed,
        "level": "model_checking",
        "coverage": cov,
        "assumptions": list(prop.assumptions),
        "wall_s": round(time.time() - t0, 2),
        "violations": len(own),
    }
    if not replay:
        EVID.mkdir(parents=True, exist_ok=True)
        (EVID / f"{prop.id}.json").write_text(json.dumps(ev, indent=1, default=str))
    if rc == 0:
        print(f"OK property={prop.id}: held on everything explored "
              f"({cov['states']} states, {n_events} events, {ev['wall_s']} s)", flush=True)
    return rc


def _shorten(x, lim=48):
    if isinstance(x, list):
        if len(x) > lim and all(isinstance(i, int) for i in x):
            return x[:lim] + [f"... {len(x) - lim} more"]
        return [_shorten(i, lim) for i in x[:lim]]
    if isinstance(x, dict):
        return {k: _shorten(v, lim) for k, v in x.items()}
    return x
