"""Virtual network for the library under test.

The seam is the event-loop API: `VLoop` is a SelectorEventLoop whose create_connection /
create_datagram_endpoint hand back in-memory transports wired to scripted fake devices, so
asyncio.open_connection, StreamReader, StreamWriter.close/wait_closed and the datagram
protocol callbacks are the real ones and no name inside aioswitcher is patched.

Nothing in this file interprets protocol bytes: it records what crosses the seam.
"""
from __future__ import annotations

import asyncio
import math
import time
from typing import Any, Callable


def limbs(n: int) -> list[int]:
    n = max(0, int(n))
    return [(n >> 16) & 0xFFFF, n & 0xFFFF]


def clk_floor() -> list[int]:
    return limbs(math.floor(time.time()))


def clk_ceil() -> list[int]:
    return limbs(math.ceil(time.time()))


class VConn(asyncio.Transport):
    """Client side of one in-memory TCP connection."""

    def __init__(self, net: "VNet", loop, protocol, addr):
        super().__init__()
        self.net = net
        self.loop = loop
        self.protocol = protocol
        self.addr = addr
        self.closing = False
        self.closed_seen = False      # the device saw the client close (end of stream)
        self.sent_eof = False         # the device closed its sending side
        self.writes: list[bytes] = []
        self.tag: Any = None          # set by the driver: which API instance this is

    # --- transport API used by StreamWriter ---------------------------------------
    def write(self, data):
        if self.closing:
            return
        data = bytes(data)
        self.writes.append(data)
        self.net._on_write(self, data)

    def writelines(self, lines):
        self.write(b"".join(lines))

    def can_write_eof(self):
        return True

    def write_eof(self):
        self.closed_seen = True

    def is_closing(self):
        return self.closing

    def close(self):
        if self.closing:
            return
        self.closing = True
        self.closed_seen = True
        self.loop.call_soon(self.protocol.connection_lost, None)
        self.net._on_close(self)

    def abort(self):
        self.close()

    def reset(self):
        """The DEVICE resets the session (RST): pending and later reads fail with ConnectionResetError, writes go nowhere;
        the device has not seen an orderly end of stream."""
        if self.closing:
            return
        self.closing = True
        self.was_reset = True
        self.loop.call_soon(self.protocol.connection_lost, ConnectionResetError(104, "Connection reset by peer"))

    def get_extra_info(self, name, default=None):
        if name == "peername":
            return self.addr
        return default

    def pause_reading(self):
        pass

    def resume_reading(self):
        pass

    def is_reading(self):
        return True

    def set_write_buffer_limits(self, high=None, low=None):
        pass

    def get_write_buffer_size(self):
        return 0

    def get_write_buffer_limits(self):
        return (0, 0)

    # --- device side ---------------------------------------------------------------
    def feed(self, data: bytes):
        """The device answers. Empty bytes = the device ends the stream (read() returns b'')."""
        if self.closing:
            return
        if data:
            self.protocol.data_received(data)
        elif not self.sent_eof:
            self.sent_eof = True
            self.protocol.eof_received()


class VUdp(asyncio.DatagramTransport):
    """An in-memory UDP endpoint bound to a port of the virtual host."""

    def __init__(self, net: "VNet", loop, protocol, port, reuse_port: bool = False):
        super().__init__()
        self.net = net
        self.loop = loop
        self.protocol = protocol
        self.port = port
        self.reuse_port = reuse_port      # SO_REUSEPORT: other sockets with the same option may bind the port as well
        self.host = "0.0.0.0"             # local address the socket is bound to
        self.closing = False
        self.released = False

    def is_closing(self):
        return self.closing

    def close(self):
        if self.closing:
            return
        self.closing = True
        self.loop.call_soon(self._release)

    def _release(self):
        self.released = True
        group = self.net.shared.get(self.port, [])
        if self in group:
            group.remove(self)
        if self.net.udp.get(self.port) is self:
            if group:
                self.net.udp[self.port] = group[-1]      # the port stays taken by the remaining SO_REUSEPORT sockets
            else:
                del self.net.udp[self.port]
        self.protocol.connection_lost(None)

    def abort(self):
        self.close()

    def sendto(self, data, addr=None):
        pass

    def get_extra_info(self, name, default=None):
        if name == "sockname":
            return ("0.0.0.0", self.port)
        return default


class VNet:
    def __init__(self):
        self.tcp: dict[tuple[str, int], bool] = {}   # address -> accepts connections
        self.conns: list[VConn] = []
        self.udp: dict[int, VUdp] = {}               # port -> the (latest) socket bound to it
        self.shared: dict[int, list[VUdp]] = {}      # port -> all live sockets bound with SO_REUSEPORT
        self.occupied: set[int] = set()              # ports held by somebody else
        self.queue: asyncio.Queue | None = None      # (conn, data) in arrival order
        self.on_write_hook: Callable[[VConn, bytes], None] | None = None
        self.dials: list[tuple[str, int]] = []       # every address a client tried to connect to, in order
        self.last_sent: dict[int, tuple[bytes, tuple]] = {}      # port -> (datagram, source address) sent last

    # TCP
    def listen(self, host: str, port: int, accept: bool = True):
        self.tcp[(host, port)] = accept

    def _on_write(self, conn: VConn, data: bytes):
        if self.on_write_hook:
            self.on_write_hook(conn, data)
        if self.queue is not None:
            self.queue.put_nowait((conn, data))

    def _on_close(self, conn: VConn):
        pass

    # UDP: deliver a datagram to whoever is bound to the port, through the loop, so that an
    # exception in the protocol callback reaches the loop's exception handler as in production
    SOURCES = [("10.0.0.99", 40000), ("10.0.0.99", 40001), ("192.168.1.33", 20002), ("10.0.0.7", 20003), ("255.255.255.255", 0), ("0.0.0.0", 1)]
    nsrc = 0

    def send_udp(self, loop, port: int, data: bytes) -> bool:
        ep = self.udp.get(port)
        group = [e for e in self.shared.get(port, []) if not e.closing]
        VNet.nsrc += 1
        if len(group) > 1:
            ep = group[VNet.nsrc % len(group)]       # the kernel hands each datagram to ONE of the sockets sharing the port
        if ep is None or ep.closing:
            return False
        if ep.host not in ("0.0.0.0", "", None):
            return False                              # device broadcasts reach sockets bound to the wildcard address only
        src = self.SOURCES[(VNet.nsrc * 7 + VNet.nsrc // 5) % len(self.SOURCES)]
        last = self.last_sent.get(port)
        if last is not None and last[0] == data:
            src = last[1]                 # a device repeating itself: the very same bytes come from the very same address
        self.last_sent[port] = (data, src)
        loop.call_soon(self._deliver, ep, data, src)
        return True

    @staticmethod
    def _deliver(ep: VUdp, data: bytes, src=("10.0.0.99", 40000)):
        if not ep.closing:       # a closed socket is no longer read, whatever its buffer holds
            ep.protocol.datagram_received(data, src)


class _VSelector:
    """Selector for virtual time: instead of sleeping until the next timer is due it moves the loop's clock there.
    (The in-memory transports have no file descriptors; the only real one is the loop's own wake-up pipe.)"""

    def __init__(self, real, clock: list):
        self._real = real
        self._clock = clock

    def select(self, timeout=None):
        ready = self._real.select(0)
        if ready or timeout is None:
            return ready if ready else self._real.select(timeout)      # nothing scheduled at all: wait for a wake-up as usual
        if timeout > 0:
            self._clock[0] += timeout
        return []

    def __getattr__(self, name):
        return getattr(self._real, name)


class VLoop(asyncio.SelectorEventLoop):
    """SelectorEventLoop whose network is a VNet.  With vtime=True its clock is virtual as well: timers (sleep, wait_for,
    call_later - the driver's and the library's alike) fire in order, at once, whenever nothing else is ready to run."""

    def __init__(self, net: VNet, vtime: bool = False):
        self._vclock = [1000.0]
        self._vtime = vtime
        if vtime:
            import selectors
            super().__init__(_VSelector(selectors.DefaultSelector(), self._vclock))
        else:
            super().__init__()
        self.net = net
        self.exceptions: list[dict] = []
        self.set_exception_handler(self._record_exception)

    def time(self):
        return self._vclock[0] if self._vtime else super().time()

    def _record_exception(self, loop, context):
        self.exceptions.append(context)

    async def create_connection(self, protocol_factory, host=None, port=None, **kw):
        await asyncio.sleep(0)
        self.net.dials.append((host, port))
        if not self.net.tcp.get((host, port), False):
            raise ConnectionRefusedError(111, f"Connect call failed ({host!r}, {port})")
        protocol = protocol_factory()
        conn = VConn(self.net, self, protocol, (host, port))
        self.net.conns.append(conn)
        protocol.connection_made(conn)
        return conn, protocol

    async def create_datagram_endpoint(self, protocol_factory, local_addr=None, remote_addr=None, **kw):
        # as in asyncio: the bind happens at once (and fails at once), the protocol is connected one loop cycle later
        port = local_addr[1]
        if not 0 <= port <= 65535:
            raise OverflowError("bind(): port must be 0-65535.")        # what socket.bind raises for such a number
        reuse = bool(kw.get("reuse_port"))
        holder = self.net.udp.get(port)
        if port in self.net.occupied or (holder is not None and not (reuse and holder.reuse_port)):
            raise OSError(98, f"error while attempting to bind on address {local_addr!r}: address already in use")
        protocol = protocol_factory()
        ep = VUdp(self.net, self, protocol, port, reuse)
        ep.host = local_addr[0]
        self.net.udp[port] = ep
        if reuse:
            self.net.shared.setdefault(port, []).append(ep)
        # exactly the selector transport's schedule: connection_made and the waiter's result are queued with call_soon, the
        # creating task is woken by the waiter one loop iteration after that (so a sibling task's failure can overtake it)
        waiter = self.create_future()
        self.call_soon(protocol.connection_made, ep)
        self.call_soon(lambda: waiter.done() or waiter.set_result(None))
        try:
            await waiter
        except BaseException:
            ep.close()          # as asyncio does when the wait for connection_made is cancelled
            raise
        return ep, protocol


class LibraryNeverReturned(Exception):
    """A coroutine of the library did not return within a week of the loop's virtual clock."""


async def bounded(coro):
    """Await a coroutine of the library, but not for ever: on the virtual clock a week costs nothing, and a call that has not
    returned by then never will (the check goes on and reports it instead of hanging).  For loops made with vtime=True."""
    try:
        return await asyncio.wait_for(coro, 7 * 86400)
    except asyncio.TimeoutError:
        raise LibraryNeverReturned("no return within a week of virtual time") from None


async def settle(n: int = 4):
    for _ in range(n):
        await asyncio.sleep(0)


def sample_frames() -> list[bytes]:
    """A few frames written by the current working tree (seeds for bit flips)."""
    from .tcpdrive import quick_capture
    return quick_capture()
