"""Reading the library's public enums: a returned field is worth what `field is DeviceState.ON` says - a member of another
enum that happens to carry the same wire value (ThermostatMode.AUTO and DeviceState.ON are both "01") is a different value."""
from __future__ import annotations


def state(v) -> int:
    from aioswitcher.device import DeviceState
    return 1 if v is DeviceState.ON else 0 if v is DeviceState.OFF else -1


def mode(v) -> int:
    from aioswitcher.device import ThermostatMode as M
    for n, m in ((1, M.AUTO), (2, M.DRY), (3, M.FAN), (4, M.COOL), (5, M.HEAT)):
        if v is m:
            return n
    return -1


def fan(v) -> int:
    from aioswitcher.device import ThermostatFanLevel as F
    for n, m in ((0, F.AUTO), (1, F.LOW), (2, F.MEDIUM), (3, F.HIGH)):
        if v is m:
            return n
    return -1


def swing(v) -> int:
    from aioswitcher.device import ThermostatSwing as S
    return 1 if v is S.ON else 0 if v is S.OFF else -1


def direction(v) -> list[int]:
    from binascii import unhexlify
    from aioswitcher.device import ShutterDirection as D
    for m in D:
        if v is m:
            return list(unhexlify(m.value))
    return [255, 255]


def integer(v) -> int:
    """A field documented as int is an int (not its text, not a float that happens to be whole)."""
    return v if isinstance(v, int) and not isinstance(v, bool) else -999


def tenths(v) -> int:
    """A value documented in tenths (temperature, amps to one decimal) as an integer number of tenths - provided it IS the float
    nearest to that many tenths (25.7, not 25.700000000000003: callers compare and print these values)."""
    if isinstance(v, bool) or not isinstance(v, (int, float)):
        return -999
    n = int(round(v * 10))
    return n if v == n / 10 else -999
