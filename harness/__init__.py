"""Model-based verification harness for aioswitcher (see /verif/DESIGN.md)."""
