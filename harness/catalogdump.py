"""Dump the library's live catalogue (types, class guards, port tables) as one JSON object.
   python -m harness.catalogdump <ON|OFF> <comma separated import order of aioswitcher modules>"""
from __future__ import annotations

import importlib
import json
import sys


def dump(state_name: str, order: list[str]) -> dict:
    for m in order:
        if m == "STIR":                      # use the rest of the library in ways that fail first (harness/poison.py)
            from . import poison
            poison.stir()
            continue
        if m == "USE":                       # ... or use it the ordinary, successful way (bridges on several port lists, clients)
            from . import poison
            poison.use()
            continue
        importlib.import_module("aioswitcher." + m)
    from aioswitcher import api, bridge
    from aioswitcher.device import (DeviceCategory, DeviceState, DeviceType, ShutterDirection, SwitcherPowerPlug, SwitcherShutter,
                                     SwitcherThermostat, SwitcherWaterHeater, ThermostatFanLevel, ThermostatMode, ThermostatSwing)
    st = DeviceState[state_name]
    types = list(DeviceType)
    tl = [{"name": t.name, "code": list(t.hex_rep.encode()), "ptype": t.protocol_type, "cat": t.category.name} for t in types]
    base = ("ab1234", "18", "10.0.0.7", "12:A1:A2:1A:BC:1A", "dev")
    makers = {
        "POWER_PLUG": lambda t: SwitcherPowerPlug(t, st, *base, 10, 0.1),
        "WATER_HEATER": lambda t: SwitcherWaterHeater(t, st, *base, 10, 0.1, "00:10:00", "01:00:00"),
        "THERMOSTAT": lambda t: SwitcherThermostat(t, st, *base, ThermostatMode.COOL, 24.5, 23, ThermostatFanLevel.LOW, ThermostatSwing.OFF, "ELEC7022"),
        "SHUTTER": lambda t: SwitcherShutter(t, st, *base, 50, ShutterDirection.SHUTTER_STOP),
    }
    accepts = []
    for own, mk in makers.items():
        for k, t in enumerate(types):
            try:
                obj = mk(t)
                ok, exc = obj.device_type is t, ""
            except Exception as x:  # noqa: BLE001 - any refusal counts as "refused"
                ok, exc = False, type(x).__name__
            accepts.append({"own": own, "type": k + 1, "ok": ok, "exc": exc})
    return {"types": tl, "cats": [c.name for c in DeviceCategory], "accepts": accepts,
            "udp": [{"cat": c.name, "port": p} for c, p in bridge.SWITCHER_DEVICE_TO_UDP_PORT.items()],
            "tcp": [{"cat": c.name, "port": p} for c, p in api.SWITCHER_DEVICE_TO_TCP_PORT.items()]}


if __name__ == "__main__":
    print(json.dumps(dump(sys.argv[1], [m for m in sys.argv[2].split(",") if m])))
