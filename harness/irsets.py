"""Generator of IR code sets (the bundled database is empty in this tree) and their
projection to the specification's record form.  Generator only - never an oracle."""
from __future__ import annotations

import random
import string

MODES = {"aa": 1, "ad": 2, "aw": 3, "ar": 4, "ah": 5}
SPECIAL = ["ELEC7022", "ZM079055", "ZM079065", "ZM079049"]
_PRINT = string.ascii_letters + string.digits + ",;:._-+ "
LEN_EDGES = [1, 2, 3, 5, 7, 11, 12, 15, 16, 17, 40, 100, 168, 169, 170, 247, 248, 251, 252, 255, 256, 257, 300, 511, 512, 1000,
             1996, 1997, 1998, 1999, 2000]


def _txt(rng: random.Random, n: int, alphabet: str) -> str:
    return "".join(rng.choice(alphabet) for _ in range(n))


def make_code(rng: random.Random, total: int) -> tuple[str, str]:
    """Para and HexCode whose 'Para|HexCode' text has exactly `total` bytes (total >= 1)."""
    if total == 1:
        return "", ""
    body = total - 1
    pl = rng.randrange(0, min(body, 40) + 1)
    return _txt(rng, pl, _PRINT), _txt(rng, body - pl, "0123456789ABCDEF")


def gen_irset(rng: random.Random, *, toggle: bool | None = None, special: bool | None = None, dense: bool | None = None,
              long_codes: bool = False, small: bool = False) -> dict:
    toggle = rng.random() < 0.5 if toggle is None else toggle
    special = rng.random() < 0.35 if special is None else special
    dense = rng.random() < 0.5 if dense is None else dense
    rid = rng.choice(SPECIAL) if special else rng.choice(["ELEC7001", "GREE0001", "ZM079050", "AUX12345", "TADI0009", "ELEC70221", "ZM0790651",
                                                           "XELEC7022", "ELEC702", "elec7022", "ZM079049A", "ZM07906", " ELEC7022", "ELEC7022 "])
    modes = [m for m in MODES if rng.random() < (0.8 if dense else 0.5)] or [rng.choice(list(MODES))]
    lo = rng.randrange(10, 25)
    hi = lo + (rng.randrange(0, 4) if small else rng.randrange(0, 17))
    p = 0.9 if dense else 0.45
    keys: list[str] = []

    def maybe(k: str, prob: float):
        if rng.random() < prob:
            keys.append(k)

    for m in modes:
        before = len(keys)
        temps = list(range(lo, hi + 1)) if m in ("ar", "ah") else [None]
        fans = [f for f in range(4) if rng.random() < (0.9 if dense else 0.5)]
        for t in temps:
            base = m + (f"{t:02d}" if t is not None else "")
            maybe(base, 0.5 * p)
            for f in fans:
                maybe(f"{base}_f{f}", p)
                maybe(f"{base}_f{f}_d1", 0.6 * p)
                if toggle:
                    maybe(f"on_{base}_f{f}", p)
                    maybe(f"on_{base}_f{f}_d1", 0.5 * p)
            if toggle:
                maybe(f"on_{base}", 0.4 * p)
        if len(keys) == before:
            keys.append(m + (f"{lo:02d}" if m in ("ar", "ah") else "") + "_f1")
    # entries no regular set has but a vendor's file may: a temperature on a mode that takes none ("aa25": a factory default),
    # a COOL / HEAT entry without one ("ah_f1").  They are never what a request resolves to unless it names exactly them.
    if rng.random() < 0.35:
        for m in modes:
            if m in ("ar", "ah"):
                maybe(m, 0.3)
                maybe(f"{m}_f{rng.randrange(4)}", 0.4)
                maybe(f"{m}_f{rng.randrange(4)}_d1", 0.3)
            else:
                tt = rng.randrange(lo, hi + 1)
                maybe(f"{m}{tt:02d}", 0.5)
                maybe(f"{m}{rng.randrange(10, 33):02d}", 0.3)
                maybe(f"{m}{tt:02d}_f{rng.randrange(4)}", 0.3)
                if toggle:
                    maybe(f"on_{m}{tt:02d}", 0.3)
    if not toggle or rng.random() < 0.2:
        maybe("off", 0.9)
    if special or rng.random() < 0.1:
        maybe("FUN_d0", 0.85)
        maybe("FUN_d1", 0.85)
    rng.shuffle(keys)
    waves = []
    for k in keys:
        if long_codes:
            total = rng.choice(LEN_EDGES) if rng.random() < 0.8 else rng.randrange(1, 2001)
        else:
            total = rng.choice([12, 13, 20, 40, 64, 100, 150, 165, 166, 200, 251, 252, 253, 300]) if rng.random() < 0.7 \
                else rng.randrange(8, 320)
        para, hx = make_code(rng, total)
        waves.append({"Key": k, "Para": para, "HexCode": hx})
    return {"IRSetID": rid, "OnOffType": 1 if toggle else 0, "IRWaveList": waves}


def t(s: str) -> list[int]:
    return list(s.encode())


def spec_set(ir: dict) -> dict:
    return {"id": t(ir["IRSetID"]), "onoff": 1 if ir["OnOffType"] == 1 else 0,
            "waves": [{"key": t(w["Key"]), "para": t(w["Para"]), "hex": t(w["HexCode"])} for w in ir["IRWaveList"]]}
