"""./check setup: parse every specification module with SANY, byte-compile the harness,
make sure the two offline wheels the drivers use are importable.  Nothing is downloaded."""
from __future__ import annotations

import compileall
import subprocess
import sys
from concurrent.futures import ThreadPoolExecutor
from pathlib import Path

from . import tlc


def setup() -> int:
    ok = True
    for mod in ("hypothesis", "jsonschema", "time_machine"):
        try:
            __import__(mod)
        except ImportError:
            subprocess.run([sys.executable, "-m", "pip", "install", "--no-index", "--find-links",
                            "/opt/veriftools/wheels", mod], check=False)
            try:
                __import__(mod)
            except ImportError:
                print(f"setup: python module {mod} unavailable")
                ok = False
    mods = sorted(p.stem for p in tlc.SPEC.glob("*.tla"))
    with ThreadPoolExecutor(max_workers=8) as ex:
        for m, (good, out) in zip(mods, ex.map(tlc.sany, mods)):
            if not good:
                ok = False
                print(f"setup: SANY rejects {m}.tla\n" + "\n".join(out.splitlines()[-15:]))
    tlc.sweep_jtmp()
    print(f"setup: {len(mods)} specification modules parsed")
    here = Path(__file__).resolve().parent
    if not compileall.compile_dir(str(here), quiet=1, legacy=False, force=False):
        ok = False
    import aioswitcher  # noqa: F401  the library under test must be importable from /repo
    print("setup: aioswitcher imported from", aioswitcher.__file__)
    return 0 if ok else 2
