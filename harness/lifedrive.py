"""Life-cycle scenarios of the TCP client (C18): connect / refused connect / operations that succeed or
raise / async-with bodies that raise / disconnect, on the virtual network or over real loopback TCP
(real end-of-stream at the fake device, real refusal from an address nobody listens on).

scenario = {"api": 1|2, "mode": "virtual"|"loopback", "word": [action, ...], "seed": n}
actions: connect, refused, enter, enter-refused, op-ok, op-raises, leave, body-raises, disconnect,
         refused-while-connected (a connect() retried on a connected client is refused: nothing may change),
         op-reset (the device resets the TCP session in the middle of an operation: the operation fails somehow, and the client
         is still "connected" until somebody disconnects it; what that disconnect does is not judged, what a later connect does is)
"""
from __future__ import annotations

import asyncio
import os
import random
import socket
import struct
from binascii import unhexlify

from . import vnet
from .clock import frozen
from .vnet import clk_ceil, clk_floor


EOF_WAIT = [15.0]
RESET = b"\x00reset"
TIMEOUTS = [0]


class BodyError(Exception):
    pass


# exceptions an `async with` body can end with: the client's own, the user's, and those of OTHER connections
BODY_EXC = [BodyError, RuntimeError, ValueError, KeyError, OSError, TimeoutError, ConnectionError, ConnectionResetError,
            ConnectionRefusedError, ConnectionAbortedError, BrokenPipeError, asyncio.CancelledError, asyncio.TimeoutError, EOFError]


class LifeRun:
    def __init__(self, scn: dict):
        self.scn = scn
        self.ev: list[dict] = []
        self.mode = scn["mode"]
        self.rng = random.Random(scn["seed"])
        self.script: list[bytes] = []       # replies the device gives to the next frames (b"" = end of stream)
        self.dev_conns: list[dict] = []     # loopback: one dict per accepted connection

    def log(self, **e):
        e["c"] = 1
        self.ev.append(e)

    # ---------------- device side ----------------------------------------------------
    def _next_reply(self) -> bytes:
        return self.script.pop(0) if self.script else b""

    async def _handler(self, reader, writer):            # loopback
        conn = {"eof": False, "sent_eof": False, "closed": asyncio.Event(), "writer": writer}
        self.dev_conns.append(conn)
        try:
            while True:
                data = await reader.read(4096)
                if not data:
                    conn["eof"] = True
                    break
                self.log(ev="Write", b=list(data), clk=clk_ceil())
                rep = b"" if conn["sent_eof"] else self._next_reply()
                if rep == RESET:
                    self.log(ev="Reset")
                    conn["eof"] = False
                    sock = writer.get_extra_info("socket")
                    sock.setsockopt(socket.SOL_SOCKET, socket.SO_LINGER, struct.pack("ii", 1, 0))
                    writer.transport.abort()          # linger 0 + close = RST
                    conn["reset"] = True
                    return
                self.log(ev="Reply", b=list(rep), src="script")
                if rep:
                    writer.write(rep)
                    await writer.drain()
                elif not conn["sent_eof"]:
                    conn["sent_eof"] = True
                    writer.write_eof()
        except (ConnectionError, OSError):
            conn["eof"] = True
        finally:
            conn["closed"].set()
            if not conn.get("reset"):
                writer.close()

    def _virtual_on_write(self, conn, data):
        self.log(ev="Write", b=list(data), clk=clk_ceil())
        rep = b"" if conn.sent_eof else self._next_reply()
        if rep == RESET:
            self.log(ev="Reset")
            conn.loop.call_soon(conn.reset)
            return
        self.log(ev="Reply", b=list(rep), src="script")
        conn.loop.call_soon(conn.feed, rep)

    # ---------------- client side ----------------------------------------------------
    async def _op(self, api, ok):
        t = self.scn["api"]
        rnd = self.rng
        login = bytes(rnd.randbytes(44))
        if t == 1:
            op = "get_state"
            state = bytearray(rnd.randbytes(107))
            state[75] = rnd.randrange(2)
            state[89:101] = (1234).to_bytes(4, "little") * 3
            self.script = [RESET] if ok == "reset" else [login, bytes(state)] if ok else [b""]
        else:
            op = "stop"
            self.script = [RESET] if ok == "reset" else [login, bytes(rnd.randbytes(56))] if ok else [b""]
        self.log(ev="Call", op=op, a={}, clk=clk_floor())
        res, exc = None, None
        try:
            res = await self._b(getattr(api, op)())
        except Exception as x:  # noqa: BLE001
            exc = x
        if self.mode == "loopback" and self.dev_conns and self.dev_conns[-1]["sent_eof"]:
            # the stream had ended already: the client's reads return at once, before the device has even seen the frame;
            # let the device log what it receives so that the events keep their causal order
            await asyncio.sleep(0.03)
        if exc is None:
            if op == "get_state":
                from .tcpdrive import _result_fields
                r = _result_fields(op, res, {})
            else:
                r = {}
            self.log(ev="Ret", out="return", exc="", ok=bool(res.successful), r=r)
        elif type(exc) is RuntimeError:
            self.log(ev="Ret", out="runtime", exc="RuntimeError", ok=False, r={})
        else:
            self.log(ev="Ret", out="raise", exc=type(exc).__name__, ok=False, r={})

    def _nconn(self) -> int:
        return len(self.net.conns) if self.mode == "virtual" else len(self.dev_conns)

    def _eof_now(self) -> bool:
        """Has the device, right now, seen the end of the stream on the newest connection? (no waiting: over real sockets a
        "no" may be premature, which can only make the check miss something, never report something)"""
        if self.mode == "virtual":
            conns = self.net.conns
            return bool(conns) and bool(conns[-1].closed_seen)
        return bool(self.dev_conns) and bool(self.dev_conns[-1]["eof"])

    async def _eof_seen(self, nconn_before: int) -> bool:
        if self.mode == "virtual":
            await vnet.settle(3)
            conns = self.net.conns
            return bool(conns) and bool(conns[-1].closed_seen)
        if not self.dev_conns:
            return False
        conn = self.dev_conns[-1]
        try:
            # real sockets: end-of-stream normally shows up within a millisecond; the generous limit only guards against a
            # loaded machine (a socket that is never closed is reported by the virtual portion at once, deterministically)
            await asyncio.wait_for(conn["closed"].wait(), EOF_WAIT[0])
        except asyncio.TimeoutError:
            TIMEOUTS[0] += 1
            if TIMEOUTS[0] >= 3:
                EOF_WAIT[0] = 0.2          # the point is made; do not spend minutes on the remaining scenarios
            return False
        return bool(conn["eof"])

    async def _main(self):
        from aioswitcher.api import SwitcherType1Api, SwitcherType2Api
        t = self.scn["api"]
        port = 9957 if t == 1 else 10000
        cls = SwitcherType1Api if t == 1 else SwitcherType2Api
        server = None
        if self.mode == "virtual":
            good = "10.9.9.1"
            self.net.listen(good, port, True)
            self.net.on_write_hook = self._virtual_on_write
        else:
            pid = os.getpid()
            good = f"127.{1 + pid % 200}.{(pid // 200) % 250}.{1 + self.scn['seed'] % 120}"
            server = await asyncio.start_server(self._handler, good, port)
        dev, key = "a1b2c3", "18"
        api = cls(good, dev, key)
        self.log(ev="Open", api=t, dev=list(unhexlify(dev)), key=list(unhexlify(key)))
        self.log(ev="Flag", flag=bool(api.connected))
        try:
            for a in self.scn["word"]:
                if a in ("connect", "refused", "enter", "enter-refused", "refused-while-connected"):
                    refuse = a in ("refused", "enter-refused", "refused-while-connected")
                    if refuse:
                        # nobody listens at the device's address for the duration of this call
                        if self.mode == "virtual":
                            self.net.listen(good, port, False)
                        else:
                            server.close()        # stops listening at once (wait_closed would also wait for open connections)
                            await asyncio.sleep(0)
                    n0 = self._nconn()
                    try:
                        if a in ("connect", "refused", "refused-while-connected"):
                            await self._b(api.connect())
                        else:
                            await self._b(api.__aenter__())
                        if self.mode == "loopback":          # the accept side runs a moment after the connect side
                            for _ in range(200):
                                if self._nconn() > n0:
                                    break
                                await asyncio.sleep(0.005)
                        self.log(ev="Connect", ok=True, exc="", flag=bool(api.connected), newconn=self._nconn() > n0, listening=not refuse)
                    except OSError as x:
                        self.log(ev="Connect", ok=False, exc=type(x).__name__, flag=bool(api.connected), listening=not refuse)
                    if refuse:
                        if self.mode == "virtual":
                            self.net.listen(good, port, True)
                        else:
                            server = await asyncio.start_server(self._handler, good, port)
                elif a == "op-ok":
                    await self._op(api, True)
                elif a == "op-raises":
                    await self._op(api, False)
                elif a == "op-reset":
                    await self._op(api, "reset")
                elif a in ("disconnect", "leave", "body-raises"):
                    n0 = len(self.dev_conns)
                    raised = False
                    try:
                        if a == "disconnect":
                            await self._b(api.disconnect())
                        elif a == "leave":
                            await self._b(api.__aexit__(None, None, None))
                        else:
                            cls_ = BODY_EXC[self.rng.randrange(len(BODY_EXC))] if self.scn.get("vary_exc", True) else BodyError
                            try:
                                raise cls_("body failed")
                            except BaseException as be:  # noqa: BLE001 - handed to __aexit__ exactly as `async with` would
                                await self._b(api.__aexit__(type(be), be, be.__traceback__))
                    except Exception:  # noqa: BLE001
                        raised = True
                    eof = await self._eof_seen(n0)
                    self.log(ev="Disc", how=a, raised=raised, flag=bool(api.connected), eof=eof)
                self.log(ev="Flag", flag=bool(api.connected), eofnow=self._eof_now())
        finally:
            try:
                await self._b(api.disconnect())
            except Exception:  # noqa: BLE001
                pass
            if server is not None:
                server.close()
                for c in self.dev_conns:          # a client that never closed its socket must not hang the harness
                    try:
                        c["writer"].transport.abort()
                    except Exception:  # noqa: BLE001
                        pass
                try:
                    await asyncio.wait_for(server.wait_closed(), 2.0)
                except asyncio.TimeoutError:
                    pass

    async def _b(self, coro):
        """Await a coroutine of the library, but not for ever (a week of virtual time / a minute of real time over loopback)."""
        if self.mode == "virtual":
            return await vnet.bounded(coro)
        try:
            return await asyncio.wait_for(coro, 60)
        except asyncio.TimeoutError:
            raise vnet.LibraryNeverReturned("no return within a minute") from None

    def go(self) -> list[dict]:
        if self.mode == "virtual":
            self.net = vnet.VNet()
            loop = vnet.VLoop(self.net, vtime=True)       # virtual clock: retries, pauses and timeouts inside the library cost no real time
        else:
            loop = asyncio.new_event_loop()
        try:
            if self.mode == "virtual":
                with frozen(1790553600.25):
                    loop.run_until_complete(self._main())
            else:
                loop.run_until_complete(self._main())      # real sockets, real clock (timeouts must be able to fire)
        finally:
            loop.close()
        return self.ev


def run_scenario(scn: dict) -> list[dict]:
    return LifeRun(scn).go()
