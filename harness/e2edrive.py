"""End-to-end scenarios (Trace_Switcher): a real API object changes a simulated device over the virtual TCP network, the
device broadcasts its state over the virtual UDP network, a real SwitcherBridge decodes the broadcast.

The simulator below keeps a device state and answers like a device; it is NOT trusted: TLC checks every broadcast it sends
against the device model (Device.tla) - a mistake here shows up as a `harness:` clause, never as a verdict."""
from __future__ import annotations

import asyncio
import json
import random
from binascii import unhexlify
from datetime import timedelta

from . import vnet
from .clock import frozen
from .udpdrive import CODES, FAM, device_fields, make_datagram

TYPES = {"heater": ["V4", "MINI", "TOUCH", "V2_ESP", "V2_QCA"], "plug": ["POWER_PLUG"], "shutter": ["RUNNER", "RUNNER_MINI"], "thermo": ["BREEZE"]}
IRSET = {"IRSetID": "ELEC7001", "OnOffType": 0, "IRWaveList": [{"Key": "ar24_f1", "Para": "P", "HexCode": "AB"}, {"Key": "off", "Para": "P", "HexCode": "CD"}]}


class Sim:
    """The simulated device (state + behaviour); mirrors Device.tla and is validated against it by TLC."""

    def __init__(self, fam, typ, rng):
        self.fam, self.typ = fam, typ
        self.id = list(rng.randbytes(3))
        self.key = rng.randrange(256)
        self.name = list(rng.choice([b"Boiler", "דוד שמש".encode(), b"a", b"Living room plug 01"]))
        self.ip = list(rng.randbytes(4))
        self.mac = list(rng.randbytes(6))
        self.power, self.remaining, self.auto, self.on_for = 0, 0, 3600, 0
        self.position, self.direction = 0, [0, 0]
        self.th = {"state": 0, "mode": 4, "target": 24, "fan": 1, "swing": 0, "temp10": 250, "remote": list(b"ELEC7022")}
        self.rng = rng

    def apply(self, f: bytes):
        n = len(f)
        body = f[40:-4]
        tail = body[39:]
        if f[4:6] == b"\x02\x32" and f[6:8] == b"\x01\x02" and tail[:4] == b"\x00\x01\x06\x00" and n == 93:
            on, timer = tail[4], int.from_bytes(tail[6:10], "little")
            if on:
                self.on_for = self.on_for if self.power else 0
                self.power, self.remaining = 1, min(86399, timer if timer > 0 else self.auto)
            else:
                self.power, self.remaining, self.on_for = 0, 0, 0
        elif f[4:6] == b"\x02\x32" and tail[:4] == b"\x00\x04\x04\x00" and n == 91:
            self.auto = min(86399, int.from_bytes(tail[4:8], "little"))
        elif f[6:8] == b"\x02\x02" and n == 116:
            self.name = list(tail[1:33].rstrip(b"\x00"))
        elif f[4:6] == b"\x03\x05" and tail[:4] == b"\x37\x01\x01\x00" and n == 88:
            self.position, self.direction = tail[4], [0, 0]
        elif f[4:6] == b"\x03\x05" and f[6:8] == b"\x01\x0e" and n == 94:
            self.th.update(state=tail[7], mode=tail[8], target=tail[9], fan=tail[10] >> 4, swing=tail[10] & 15)

    def elapse(self, s: int):
        if self.fam in ("heater", "plug") and self.power:
            if self.remaining > s:
                self.remaining -= s
                self.on_for = min(86399, self.on_for + s)
            else:
                self.power, self.remaining, self.on_for = 0, 0, 0

    def broadcast(self) -> bytes:
        d = {"t": "bc", "fam": self.fam, "code": list(unhexlify(CODES[self.typ])), "seed": self.rng.randrange(1 << 30), "id": self.id,
             "key": self.key, "name": self.name, "ip": self.ip, "mac": self.mac}
        if self.fam in ("heater", "plug"):
            d.update(state=self.power, watts=2600 if self.power else 0, remaining=self.remaining, auto=self.auto)
        elif self.fam == "shutter":
            d.update(position=self.position, direction=self.direction)
        else:
            d.update(self.th)
        return make_datagram(d)

    def state_reply(self) -> bytes:
        """The answer to a state query: the device's state placed into random filler of a length real devices send."""
        if self.fam in ("heater", "plug"):
            b = bytearray(self.rng.randbytes(self.rng.choice([101, 105, 109])))
            b[75] = self.power
            b[77:79] = (2600 if self.power else 0).to_bytes(2, "little")
            b[89:93] = self.remaining.to_bytes(4, "little")
            b[93:97] = self.on_for.to_bytes(4, "little")
            b[97:101] = self.auto.to_bytes(4, "little")
            return bytes(b)
        if self.fam == "shutter":
            b = bytearray(self.rng.randbytes(self.rng.choice([80, 84, 100])))
            b[76] = self.position
            b[78:80] = bytes(self.direction)
            return bytes(b)
        return self.thermo_reply()

    def thermo_reply(self) -> bytes:
        b = bytearray(self.rng.randbytes(109))
        b[76:78] = int(self.th["temp10"]).to_bytes(2, "little")
        b[78], b[79], b[80] = self.th["state"], self.th["mode"], self.th["target"]
        b[81] = (self.th["fan"] << 4) | self.th["swing"]
        b[84:92] = bytes(self.th["remote"])
        return bytes(b)


class E2ERun:
    def __init__(self, scn):
        self.scn = scn
        self.ev = []
        self.net = vnet.VNet()
        self.loop = vnet.VLoop(self.net, vtime=True)
        self.rng = random.Random(scn["seed"])
        self.querying = False

    def log(self, **e):
        self.ev.append(e)

    def go(self):
        try:
            with frozen(1790553600.25):
                self.loop.run_until_complete(self._main())
        finally:
            self.loop.close()
        return self.ev

    async def _main(self):
        from aioswitcher.api import Command, SwitcherType1Api, SwitcherType2Api
        from aioswitcher.api.remotes import SwitcherBreezeRemote
        from aioswitcher.bridge import SwitcherBridge
        from aioswitcher.device import DeviceState, ThermostatFanLevel, ThermostatMode, ThermostatSwing
        scn = self.scn
        fam = scn["fam"]
        sim = Sim(fam, self.rng.choice(TYPES[fam]), self.rng)
        t1 = fam in ("heater", "plug")
        self.log(ev="Dev", fam=fam, code=list(unhexlify(CODES[sim.typ])), id=sim.id, key=[sim.key], name=sim.name, ip=sim.ip, mac=sim.mac)
        host, port = "10.5.5.5", 9957 if t1 else 10000
        self.net.listen(host, port, True)

        def on_write(conn, data):
            self.log(ev="Frame", b=list(data))
            sim.apply(data)
            # answer like a device: a thermostat state for the type-2 state query, something non-empty otherwise
            if data[6:8] == b"\x01\x03" and len(data) == 48 and self.querying:
                rep = sim.state_reply()
                self.log(ev="Reply", b=list(rep))
            elif data[4:6] == b"\x03\x05" and data[6:8] == b"\x01\x03":
                rep = sim.thermo_reply()
            else:
                rep = bytes(self.rng.randbytes(56))
            conn.loop.call_soon(conn.feed, rep)
        self.net.on_write_hook = on_write
        seen = []
        bridge = SwitcherBridge(lambda d: seen.append(device_fields(d)), [20002, 20003])
        await vnet.bounded(bridge.start())
        api = (SwitcherType1Api if t1 else SwitcherType2Api)(host, bytes(sim.id).hex(), f"{sim.key:02x}")
        await vnet.bounded(api.connect())
        M = {1: ThermostatMode.AUTO, 2: ThermostatMode.DRY, 3: ThermostatMode.FAN, 4: ThermostatMode.COOL, 5: ThermostatMode.HEAT}
        F = {0: ThermostatFanLevel.AUTO, 1: ThermostatFanLevel.LOW, 2: ThermostatFanLevel.MEDIUM, 3: ThermostatFanLevel.HIGH}
        for st in scn["steps"]:
            do = st["do"]
            if do == "elapse":
                sim.elapse(st["s"])
                self.log(ev="Elapse", s=st["s"])
            elif do in ("get_state", "get_shutter_state", "get_breeze_state"):
                from .tcpdrive import _result_fields
                self.log(ev="Op", op=do, a={})
                self.querying = True
                try:
                    res = await vnet.bounded(getattr(api, do)())
                    self.log(ev="Read", op=do, r=_result_fields(do, res, {}))
                except Exception as x:  # noqa: BLE001 - the device answers with a well-formed reply: judged by the specification
                    self.log(ev="OpRaised", exc=type(x).__name__)
                finally:
                    self.querying = False
                continue          # a query changes nothing: no broadcast round needed
            else:
                self.log(ev="Op", op=do, a=st["a"])
                a = st["a"]
                try:
                  if do == "control_device":
                      await vnet.bounded(api.control_device(Command.ON if a["on"] else Command.OFF, a["minutes"]))
                  elif do == "set_auto_shutdown":
                      await vnet.bounded(api.set_auto_shutdown(timedelta(seconds=a["secs"])))
                  elif do == "set_device_name":
                      await vnet.bounded(api.set_device_name("".join(chr(c) for c in a["cps"])))
                  elif do == "set_position":
                      await vnet.bounded(api.set_position(a["pos"]))
                  elif do == "stop":
                      await vnet.bounded(api.stop())
                  elif do == "update_state":
                      await vnet.bounded(api.control_breeze_device(SwitcherBreezeRemote(IRSET), DeviceState.ON if a["state"] else DeviceState.OFF, M[a["mode"]],
                                                                   a["temp"], F[a["fan"]], ThermostatSwing.ON if a["swing"] else ThermostatSwing.OFF, update_state=True))
                except Exception as x:  # noqa: BLE001 - every request here has accepted arguments and the device answers: judged by the specification
                    self.log(ev="OpRaised", exc=type(x).__name__)
            data = sim.broadcast()
            self.log(ev="Bcast", b=list(data))
            seen.clear()
            self.net.send_udp(self.loop, 20002 if t1 else 20003, data)
            await vnet.settle(8)
            for g in seen:
                self.log(ev="Seen", g=g)
            if not seen:
                self.log(ev="Seen", g={"name": [], "state": -1, "watts": -1, "remaining": [], "auto": [], "position": -1, "direction": [],
                                       "mode": -1, "target": -1, "fan": -1, "swing": -1, "id": [], "key": []})
        await vnet.bounded(api.disconnect())
        await vnet.bounded(bridge.stop())
        await vnet.settle(3)


def scenarios(rng: random.Random, n: int) -> list[dict]:
    out = []
    for k in range(n):
        fam = ["heater", "plug", "shutter", "thermo"][k % 4]
        steps = []
        for _ in range(rng.randrange(3, 12)):
            if fam in ("heater", "plug"):
                c = rng.random()
                if c < 0.45:
                    steps.append({"do": "control_device", "a": {"on": rng.randrange(2), "minutes": rng.choice([0, 0, 1, 30, 90, 1439, 1440, 2000])}})
                elif c < 0.6 and fam == "heater":
                    steps.append({"do": "set_auto_shutdown", "a": {"secs": rng.choice([3600, 3659, 5400, 7260, 86340, 86399])}})
                elif c < 0.75:
                    steps.append({"do": "set_device_name", "a": {"cps": rng.choice([[66, 111, 105, 108, 101, 114], [0x5D3, 0x5D5, 0x5D3], [97, 98], [0x1F600, 0x1F525],
                                                                                  [67, 97, 102, 101, 0x301], [97 + q % 26 for q in range(32)]])}})
                elif c < 0.87:
                    steps.append({"do": "get_state", "a": {}})
                else:
                    steps.append({"do": "elapse", "s": rng.choice([1, 59, 60, 1800, 3599, 3600, 86399])})
            elif fam == "shutter":
                steps.append(rng.choice([{"do": "set_position", "a": {"pos": rng.randrange(101)}}, {"do": "stop", "a": {}},
                                         {"do": "get_shutter_state", "a": {}}]))
            elif rng.random() < 0.3:
                steps.append({"do": "get_breeze_state", "a": {}})
            else:
                steps.append({"do": "update_state", "a": {"state": rng.randrange(2), "mode": rng.randrange(1, 6), "temp": rng.choice([16, 20, 24, 30]),
                                                          "fan": rng.randrange(4), "swing": rng.randrange(2)}})
        out.append({"fam": fam, "seed": rng.randrange(1 << 30), "steps": steps})
    return out


def run_scenario(scn: dict) -> list[dict]:
    return E2ERun(scn).go()


# ----------------------------------------------------------------------------------------
# spec -> code: behaviours of Switcher.tla generated by TLC (Gen_Switcher) stepped through a real API object, the simulated
# device and a real bridge; after every action what the user sees is compared with what the specification says it must see
class GenRun:
    """One TLC-generated behaviour of the end-to-end model.  beh = [{"a": action, "x": arguments, "exp": {running, view, read, air}}]"""

    IDENT = {"id": [1, 2, 3], "key": 24, "name": [66], "ip": [10, 0, 0, 7], "mac": [1, 2, 3, 4, 5, 6]}      # Switcher!Dev0
    CODE = {"heater": "V4", "plug": "POWER_PLUG", "shutter": "RUNNER", "thermo": "BREEZE"}

    def __init__(self, beh: list[dict], fam: str, seed: int):
        self.beh, self.fam = beh, fam
        self.rng = random.Random(seed)
        self.net = vnet.VNet()
        self.loop = vnet.VLoop(self.net, vtime=True)
        self.mismatch: list[dict] = []

    def run(self) -> list[dict]:
        import warnings
        try:
            with warnings.catch_warnings(), frozen(1790553600.25):
                warnings.simplefilter("ignore")
                self.loop.run_until_complete(self._main())
        finally:
            self.loop.close()
        return self.mismatch

    def _miss(self, n, a, what, want, got):
        self.mismatch.append({"step": n, "action": a, "what": what, "expected": want, "observed": got})

    async def _main(self):
        from aioswitcher.api import Command, SwitcherType1Api, SwitcherType2Api
        from aioswitcher.api.remotes import SwitcherBreezeRemote
        from aioswitcher.bridge import SwitcherBridge
        from aioswitcher.device import DeviceState, ThermostatFanLevel, ThermostatMode, ThermostatSwing
        from .tcpdrive import _result_fields
        fam = self.fam
        sim = Sim(fam, self.CODE[fam], self.rng)
        sim.id, sim.key, sim.name, sim.ip, sim.mac = (list(self.IDENT["id"]), self.IDENT["key"], list(self.IDENT["name"]),
                                                      list(self.IDENT["ip"]), list(self.IDENT["mac"]))
        t1 = fam in ("heater", "plug")
        host, port = "10.5.5.6", 9957 if t1 else 10000
        self.net.listen(host, port, True)
        querying = [False]

        def on_write(conn, data):
            sim.apply(data)
            if data[6:8] == b"\x01\x03" and len(data) == 48 and querying[0]:
                rep = sim.state_reply()
            elif data[4:6] == b"\x03\x05" and data[6:8] == b"\x01\x03":
                rep = sim.thermo_reply()
            else:
                rep = bytes(self.rng.randbytes(56))
            conn.loop.call_soon(conn.feed, rep)
        self.net.on_write_hook = on_write
        seen: list[dict] = []
        udp_port = 20002 if t1 else 20003
        bridge = SwitcherBridge(lambda d: seen.append(device_fields(d)), [udp_port])
        api = (SwitcherType1Api if t1 else SwitcherType2Api)(host, bytes(sim.id).hex(), f"{sim.key:02x}")
        await vnet.bounded(api.connect())
        M = {1: ThermostatMode.AUTO, 2: ThermostatMode.DRY, 3: ThermostatMode.FAN, 4: ThermostatMode.COOL, 5: ThermostatMode.HEAT}
        F = {0: ThermostatFanLevel.AUTO, 1: ThermostatFanLevel.LOW, 2: ThermostatFanLevel.MEDIUM, 3: ThermostatFanLevel.HIGH}
        air: list[bytes] = []
        view = None          # what the callback last received
        read = None          # what the last state query returned (forgotten at the next command, as in the model)
        for n, st in enumerate(self.beh):
            a, x, exp = st["a"], st["x"], st["exp"]
            try:
                if a == "Control":
                    await vnet.bounded(api.control_device(Command.ON if x["on"] else Command.OFF, x["minutes"]))
                    air, read = [], None
                elif a == "SetAutoOff":
                    await vnet.bounded(api.set_auto_shutdown(timedelta(seconds=x["secs"])))
                    air, read = [], None
                elif a == "SetPosition":
                    await vnet.bounded(api.set_position(x["pos"]))
                    air, read = [], None
                elif a == "StopShutter":
                    await vnet.bounded(api.stop())
                    air, read = [], None
                elif a == "TellThermo":
                    await vnet.bounded(api.control_breeze_device(SwitcherBreezeRemote(IRSET), DeviceState.ON if x["state"] else DeviceState.OFF, M[x["mode"]],
                                                                 x["temp"], F[x["fan"]], ThermostatSwing.ON if x["swing"] else ThermostatSwing.OFF, update_state=True))
                    air, read = [], None
                elif a == "Query":
                    op = "get_state" if t1 else ("get_shutter_state" if fam == "shutter" else "get_breeze_state")
                    querying[0] = True
                    try:
                        read = _result_fields(op, await vnet.bounded(getattr(api, op)()), {})
                    finally:
                        querying[0] = False
                elif a == "Elapse":
                    sim.elapse(x["s"])
                elif a == "Broadcast":
                    air.append(sim.broadcast())
                elif a == "Lose":
                    air.pop(0)
                elif a == "Deliver":
                    seen.clear()
                    self.net.send_udp(self.loop, udp_port, air.pop(0))
                    await vnet.settle(8)
                    if len(seen) != 1:
                        self._miss(n, a, "C05:e2e-one-device-per-broadcast", 1, len(seen))
                        return
                    view = seen[0]
                elif a == "Start":
                    await vnet.settle(3)
                    await vnet.bounded(bridge.start())
                elif a == "Stop":
                    await vnet.bounded(bridge.stop())
                    await vnet.settle(3)
            except Exception as exc:  # noqa: BLE001 - every action of the model succeeds: an exception is a mismatch
                self._miss(n, a, "C02:e2e-action-raised" if a not in ("Query", "Deliver", "Start", "Stop") else
                           ("C08:e2e-action-raised" if a == "Query" else "C17:e2e-action-raised"), "returns", type(exc).__name__)
                return
            if bool(bridge.is_running) != bool(exp["running"]):
                self._miss(n, a, "C17:e2e-running-flag", exp["running"], bool(bridge.is_running))
            if exp["view"].get("state") != -1 or len(exp["view"]) > 1:
                got = {k: (view or {}).get(k) for k in exp["view"]}
                if got != exp["view"]:
                    self._miss(n, a, "C05:e2e-device-handed-to-the-callback", exp["view"], got)
            if len(exp["read"]) > 1:
                got = {k: (read or {}).get(k) for k in exp["read"]}
                if got != exp["read"]:
                    self._miss(n, a, "C08:e2e-state-query-result", exp["read"], got)
            if self.mismatch:
                return
        await vnet.bounded(api.disconnect())
        await vnet.bounded(bridge.stop())
        await vnet.settle(3)


def gen_replay(ctx_seed: int, num: int, quick: bool) -> dict:
    """Behaviours of Gen_Switcher for the four device families, replayed; returns {"info", "behaviours", "steps", "mismatches"}."""
    from . import tlcgen
    mism, nb, ns, infos = [], 0, 0, []
    for fi, fam in enumerate(("heater", "plug", "shutter", "thermo")):
        behs, info = tlcgen.behaviours("Gen_Switcher", f"Gen_Switcher_{fam}.cfg", 8 * num, 30, (ctx_seed + fi) % 100000)
        infos.append(info)
        # the simulator walks at random: keep the behaviours in which the user sees most (broadcasts delivered, queries answered)
        behs.sort(key=lambda b: -(3 * sum(1 for s in b if s["a"] == "Deliver") + sum(1 for s in b if s["a"] == "Query")
                                  + 2 * len({json.dumps(s["exp"]["view"], sort_keys=True) for s in b})))
        for k, b in enumerate(behs[:num]):
            mm = GenRun(b, fam, ctx_seed + k).run()
            nb += 1
            ns += len(b)
            for m in mm:
                m.update(behaviour=nb, family=fam, beh=b, beh_seed=ctx_seed + k, trace=[[s["a"], s["x"]] for s in b[: m["step"] + 1]])
            mism.extend(mm)
    return {"info": {"module": "Gen_Switcher", "behaviours": nb, "states": sum(i["states"] for i in infos)}, "behaviours": nb, "steps": ns, "mismatches": mism}
