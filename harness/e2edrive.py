"""End-to-end scenarios (Trace_Switcher): a real API object changes a simulated device over the virtual TCP network, the
device broadcasts its state over the virtual UDP network, a real SwitcherBridge decodes the broadcast.

The simulator below keeps a device state and answers like a device; it is NOT trusted: TLC checks every broadcast it sends
against the device model (Device.tla) - a mistake here shows up as a `harness:` clause, never as a verdict."""
from __future__ import annotations

import asyncio
import random
from binascii import unhexlify
from datetime import timedelta

from . import vnet
from .clock import frozen
from .udpdrive import CODES, FAM, device_fields, make_datagram

TYPES = {"heater": ["V4", "MINI", "TOUCH", "V2_ESP", "V2_QCA"], "plug": ["POWER_PLUG"], "shutter": ["RUNNER", "RUNNER_MINI"], "thermo": ["BREEZE"]}
IRSET = {"IRSetID": "ELEC7001", "OnOffType": 0, "IRWaveList": [{"Key": "ar24_f1", "Para": "P", "HexCode": "AB"}, {"Key": "off", "Para": "P", "HexCode": "CD"}]}


class Sim:
    """The simulated device (state + behaviour); mirrors Device.tla and is validated against it by TLC."""

    def __init__(self, fam, typ, rng):
        self.fam, self.typ = fam, typ
        self.id = list(rng.randbytes(3))
        self.key = rng.randrange(256)
        self.name = list(rng.choice([b"Boiler", "דוד שמש".encode(), b"a", b"Living room plug 01"]))
        self.ip = list(rng.randbytes(4))
        self.mac = list(rng.randbytes(6))
        self.power, self.remaining, self.auto, self.on_for = 0, 0, 3600, 0
        self.position, self.direction = 0, [0, 0]
        self.th = {"state": 0, "mode": 4, "target": 24, "fan": 1, "swing": 0, "temp10": 250, "remote": list(b"ELEC7022")}
        self.rng = rng

    def apply(self, f: bytes):
        n = len(f)
        body = f[40:-4]
        tail = body[39:]
        if f[4:6] == b"\x02\x32" and f[6:8] == b"\x01\x02" and tail[:4] == b"\x00\x01\x06\x00" and n == 93:
            on, timer = tail[4], int.from_bytes(tail[6:10], "little")
            if on:
                self.on_for = self.on_for if self.power else 0
                self.power, self.remaining = 1, min(86399, timer if timer > 0 else self.auto)
            else:
                self.power, self.remaining, self.on_for = 0, 0, 0
        elif f[4:6] == b"\x02\x32" and tail[:4] == b"\x00\x04\x04\x00" and n == 91:
            self.auto = min(86399, int.from_bytes(tail[4:8], "little"))
        elif f[6:8] == b"\x02\x02" and n == 116:
            self.name = list(tail[1:33].rstrip(b"\x00"))
        elif f[4:6] == b"\x03\x05" and tail[:4] == b"\x37\x01\x01\x00" and n == 88:
            self.position, self.direction = tail[4], [0, 0]
        elif f[4:6] == b"\x03\x05" and f[6:8] == b"\x01\x0e" and n == 94:
            self.th.update(state=tail[7], mode=tail[8], target=tail[9], fan=tail[10] >> 4, swing=tail[10] & 15)

    def elapse(self, s: int):
        if self.fam in ("heater", "plug") and self.power:
            if self.remaining > s:
                self.remaining -= s
                self.on_for = min(86399, self.on_for + s)
            else:
                self.power, self.remaining, self.on_for = 0, 0, 0

    def broadcast(self) -> bytes:
        d = {"t": "bc", "fam": self.fam, "code": list(unhexlify(CODES[self.typ])), "seed": self.rng.randrange(1 << 30), "id": self.id,
             "key": self.key, "name": self.name, "ip": self.ip, "mac": self.mac}
        if self.fam in ("heater", "plug"):
            d.update(state=self.power, watts=2600 if self.power else 0, remaining=self.remaining, auto=self.auto)
        elif self.fam == "shutter":
            d.update(position=self.position, direction=self.direction)
        else:
            d.update(self.th)
        return make_datagram(d)

    def state_reply(self) -> bytes:
        """The answer to a state query: the device's state placed into random filler of a length real devices send."""
        if self.fam in ("heater", "plug"):
            b = bytearray(self.rng.randbytes(self.rng.choice([101, 105, 109])))
            b[75] = self.power
            b[77:79] = (2600 if self.power else 0).to_bytes(2, "little")
            b[89:93] = self.remaining.to_bytes(4, "little")
            b[93:97] = self.on_for.to_bytes(4, "little")
            b[97:101] = self.auto.to_bytes(4, "little")
            return bytes(b)
        if self.fam == "shutter":
            b = bytearray(self.rng.randbytes(self.rng.choice([80, 84, 100])))
            b[76] = self.position
            b[78:80] = bytes(self.direction)
            return bytes(b)
        return self.thermo_reply()

    def thermo_reply(self) -> bytes:
        b = bytearray(self.rng.randbytes(109))
        b[76:78] = int(self.th["temp10"]).to_bytes(2, "little")
        b[78], b[79], b[80] = self.th["state"], self.th["mode"], self.th["target"]
        b[81] = (self.th["fan"] << 4) | self.th["swing"]
        b[84:92] = bytes(self.th["remote"])
        return bytes(b)


class E2ERun:
    def __init__(self, scn):
        self.scn = scn
        self.ev = []
        self.net = vnet.VNet()
        self.loop = vnet.VLoop(self.net)
        self.rng = random.Random(scn["seed"])
        self.querying = False

    def log(self, **e):
        self.ev.append(e)

    def go(self):
        try:
            with frozen(1790553600.25):
                self.loop.run_until_complete(self._main())
        finally:
            self.loop.close()
        return self.ev

    async def _main(self):
        from aioswitcher.api import Command, SwitcherType1Api, SwitcherType2Api
        from aioswitcher.api.remotes import SwitcherBreezeRemote
        from aioswitcher.bridge import SwitcherBridge
        from aioswitcher.device import DeviceState, ThermostatFanLevel, ThermostatMode, ThermostatSwing
        scn = self.scn
        fam = scn["fam"]
        sim = Sim(fam, self.rng.choice(TYPES[fam]), self.rng)
        t1 = fam in ("heater", "plug")
        self.log(ev="Dev", fam=fam, code=list(unhexlify(CODES[sim.typ])), id=sim.id, key=[sim.key], name=sim.name, ip=sim.ip, mac=sim.mac)
        host, port = "10.5.5.5", 9957 if t1 else 10000
        self.net.listen(host, port, True)

        def on_write(conn, data):
            self.log(ev="Frame", b=list(data))
            sim.apply(data)
            # answer like a device: a thermostat state for the type-2 state query, something non-empty otherwise
            if data[6:8] == b"\x01\x03" and len(data) == 48 and self.querying:
                rep = sim.state_reply()
                self.log(ev="Reply", b=list(rep))
            elif data[4:6] == b"\x03\x05" and data[6:8] == b"\x01\x03":
                rep = sim.thermo_reply()
            else:
                rep = bytes(self.rng.randbytes(56))
            conn.loop.call_soon(conn.feed, rep)
        self.net.on_write_hook = on_write
        seen = []
        bridge = SwitcherBridge(lambda d: seen.append(device_fields(d)), [20002, 20003])
        await bridge.start()
        api = (SwitcherType1Api if t1 else SwitcherType2Api)(host, bytes(sim.id).hex(), f"{sim.key:02x}")
        await api.connect()
        M = {1: ThermostatMode.AUTO, 2: ThermostatMode.DRY, 3: ThermostatMode.FAN, 4: ThermostatMode.COOL, 5: ThermostatMode.HEAT}
        F = {0: ThermostatFanLevel.AUTO, 1: ThermostatFanLevel.LOW, 2: ThermostatFanLevel.MEDIUM, 3: ThermostatFanLevel.HIGH}
        for st in scn["steps"]:
            do = st["do"]
            if do == "elapse":
                sim.elapse(st["s"])
                self.log(ev="Elapse", s=st["s"])
            elif do in ("get_state", "get_shutter_state", "get_breeze_state"):
                from .tcpdrive import _result_fields
                self.log(ev="Op", op=do, a={})
                self.querying = True
                try:
                    res = await getattr(api, do)()
                    self.log(ev="Read", op=do, r=_result_fields(do, res, {}))
                except Exception as x:  # noqa: BLE001 - the device answers with a well-formed reply: judged by the specification
                    self.log(ev="OpRaised", exc=type(x).__name__)
                finally:
                    self.querying = False
                continue          # a query changes nothing: no broadcast round needed
            else:
                self.log(ev="Op", op=do, a=st["a"])
                a = st["a"]
                try:
                  if do == "control_device":
                      await api.control_device(Command.ON if a["on"] else Command.OFF, a["minutes"])
                  elif do == "set_auto_shutdown":
                      await api.set_auto_shutdown(timedelta(seconds=a["secs"]))
                  elif do == "set_device_name":
                      await api.set_device_name("".join(chr(c) for c in a["cps"]))
                  elif do == "set_position":
                      await api.set_position(a["pos"])
                  elif do == "stop":
                      await api.stop()
                  elif do == "update_state":
                      await api.control_breeze_device(SwitcherBreezeRemote(IRSET), DeviceState.ON if a["state"] else DeviceState.OFF, M[a["mode"]], a["temp"],
                                                      F[a["fan"]], ThermostatSwing.ON if a["swing"] else ThermostatSwing.OFF, update_state=True)
                except Exception as x:  # noqa: BLE001 - every request here has accepted arguments and the device answers: judged by the specification
                    self.log(ev="OpRaised", exc=type(x).__name__)
            data = sim.broadcast()
            self.log(ev="Bcast", b=list(data))
            seen.clear()
            self.net.send_udp(self.loop, 20002 if t1 else 20003, data)
            await vnet.settle(8)
            for g in seen:
                self.log(ev="Seen", g=g)
            if not seen:
                self.log(ev="Seen", g={"name": [], "state": -1, "watts": -1, "remaining": [], "auto": [], "position": -1, "direction": [],
                                       "mode": -1, "target": -1, "fan": -1, "swing": -1, "id": [], "key": []})
        await api.disconnect()
        await bridge.stop()
        await vnet.settle(3)


def scenarios(rng: random.Random, n: int) -> list[dict]:
    out = []
    for k in range(n):
        fam = ["heater", "plug", "shutter", "thermo"][k % 4]
        steps = []
        for _ in range(rng.randrange(3, 12)):
            if fam in ("heater", "plug"):
                c = rng.random()
                if c < 0.45:
                    steps.append({"do": "control_device", "a": {"on": rng.randrange(2), "minutes": rng.choice([0, 0, 1, 30, 90, 1439, 1440, 2000])}})
                elif c < 0.6 and fam == "heater":
                    steps.append({"do": "set_auto_shutdown", "a": {"secs": rng.choice([3600, 3659, 5400, 7260, 86340, 86399])}})
                elif c < 0.75:
                    steps.append({"do": "set_device_name", "a": {"cps": rng.choice([[66, 111, 105, 108, 101, 114], [0x5D3, 0x5D5, 0x5D3], [97, 98], [0x1F600, 0x1F525],
                                                                                  [67, 97, 102, 101, 0x301], [97 + q % 26 for q in range(32)]])}})
                elif c < 0.87:
                    steps.append({"do": "get_state", "a": {}})
                else:
                    steps.append({"do": "elapse", "s": rng.choice([1, 59, 60, 1800, 3599, 3600, 86399])})
            elif fam == "shutter":
                steps.append(rng.choice([{"do": "set_position", "a": {"pos": rng.randrange(101)}}, {"do": "stop", "a": {}},
                                         {"do": "get_shutter_state", "a": {}}]))
            elif rng.random() < 0.3:
                steps.append({"do": "get_breeze_state", "a": {}})
            else:
                steps.append({"do": "update_state", "a": {"state": rng.randrange(2), "mode": rng.randrange(1, 6), "temp": rng.choice([16, 20, 24, 30]),
                                                          "fan": rng.randrange(4), "swing": rng.randrange(2)}})
        out.append({"fam": fam, "seed": rng.randrange(1 << 30), "steps": steps})
    return out


def run_scenario(scn: dict) -> list[dict]:
    return E2ERun(scn).go()
