"""./check bindtest  (development tool): demonstrates that the trace specifications are bound to what is recorded.
For every trace family a few real scenarios are recorded, ONE field of ONE event is corrupted (or one event removed)
and TLC must reject exactly that scenario with the expected clause; the untouched recording must be accepted."""
from __future__ import annotations

import copy
import json

from . import props, tlc
from .core import Ctx


def _record(pid: str, pick):
    p = props.load(pid)
    ctx = Ctx("quick", 20260927)
    scns = p.scenarios(ctx)
    chosen = [s for s in scns if pick(s)][:1] or scns[:1]
    for n, s in enumerate(chosen):
        s["tid"] = 1
    runs = p.execute_all(ctx, chosen)
    return p, runs[0]


def _variants(evs, muts):
    """muts: list of (label, expected clause, function(events) -> mutated events or None)"""
    out = []
    for k, (label, clause, fn) in enumerate(muts):
        e2 = fn(copy.deepcopy(evs))
        if e2 is None:
            out.append((label, clause, None))
            continue
        for n, e in enumerate(e2):
            e["tid"] = 100 + k
            e["k"] = n
        out.append((label, clause, e2))
    return out


def _first(evs, pred):
    return next(i for i, e in enumerate(evs) if pred(e))


def bindtest() -> int:
    ok = True
    plan = []
    # C04 -----------------------------------------------------------------------------------------
    p, evs = _record("C04", lambda s: True)
    def sig(e):
        i = _first(e, lambda x: x["ev"] == "Sign" and not x["raised"] and len(x["in"]) >= 4); e[i]["out"][-1] ^= 1; return e
    def pre(e):
        i = _first(e, lambda x: x["ev"] == "Sign" and not x["raised"] and len(x["in"]) >= 4); e[i]["out"][0] ^= 1; return e
    plan.append((p, evs, [("flip a signature digit", "C04:crc-of-key", sig), ("alter the prefix", "C04:prefix-unaltered", pre)]))
    # C12/C14/C13/C11 -------------------------------------------------------------------------------
    p, evs = _record("C12", lambda s: s.get("kind") == "enc")
    def m1(e):
        i = _first(e, lambda x: x["ev"] == "Mask" and not x["raised"]); e[i]["out"][1] ^= 1; return e
    plan.append((p, evs, [("change a mask digit", "C12:mask-text", m1)]))
    p, evs = _record("C13", lambda s: True)
    def n1(e):
        i = _first(e, lambda x: x["ev"] == "Next" and b"today" in bytes(x["text"]) and x["days"]); e[i]["text"] = list(bytes(e[i]["text"]).replace(b"today", b"tomorrow")); return e
    plan.append((p, evs[:400], [("today -> tomorrow", "C13:day-term", n1)]))
    p, evs = _record("C11", lambda s: True)
    def c1(e):
        i = _first(e, lambda x: x["ev"] == "Clock" and not x["raised"] and len(x["out"]) == 4); e[i]["out"][0] ^= 64; return e
    plan.append((p, evs[:300] + evs[-50:], [("shift an encoded instant by 64 s", "C11:encoded-instant", c1)]))
    p, evs = _record("C14", lambda s: True)
    def d1(e):
        e[0]["outs"][3][-1] = 49; return e
    plan.append((p, evs[:5], [("one duration text off by a second", "C14:duration", d1)]))
    # C15 -------------------------------------------------------------------------------------------
    p, evs = _record("C15", lambda s: True)
    def r1(e):
        i = _first(e, lambda x: x["ev"] == "Build" and x["outcome"] == "ok"); e[i]["cmd"][-1] ^= 1; return e
    def r2(e):
        i = _first(e, lambda x: x["ev"] == "Build" and x["outcome"] == "ok"); e[i]["lenhex"] = e[i]["lenhex"][2:] + e[i]["lenhex"][:2]; return e
    plan.append((p, evs[:200], [("change the last code byte", "C15:stored-code", r1), ("swap the length bytes", "C15:length-field", r2)]))
    # C19 -------------------------------------------------------------------------------------------
    p, evs = _record("C19", lambda s: True)
    def k1(e):
        e[0]["c"]["accepts"][1]["ok"] = not e[0]["c"]["accepts"][1]["ok"]; return e
    def k2(e):
        e[0]["c"]["tcp"][0]["port"] = 9958; return e
    plan.append((p, evs, [("one construction outcome flipped", "C19:class-accepts-exactly-its-category", k1), ("one port changed", "C19:tcp-port-of-protocol-type", k2)]))
    # client ----------------------------------------------------------------------------------------
    p, evs = _record("C08", lambda s: s["inst"][0]["api"] == 1)
    def w_sig(e):
        i = _first(e, lambda x: x["ev"] == "Write" and len(x["b"]) == 48); e[i]["b"][-1] ^= 1; return e
    def w_sess(e):
        i = _first(e, lambda x: x["ev"] == "Write" and len(x["b"]) == 48); e[i]["b"][9] ^= 1; return e
    def w_dev(e):
        i = _first(e, lambda x: x["ev"] == "Write" and len(x["b"]) == 48); e[i]["b"][41] ^= 1; return e
    def w_drop(e):
        i = _first(e, lambda x: x["ev"] == "Write" and len(x["b"]) == 48); del e[i]; return e
    def r_state(e):
        i = _first(e, lambda x: x["ev"] == "Ret" and x["out"] == "return"); e[i]["r"]["watts"] += 1; return e
    def r_exc(e):
        i = _first(e, lambda x: x["ev"] == "Ret" and x["out"] == "return"); e[i]["out"] = "raise"; e[i]["exc"] = "KeyError"; return e
    plan.append((p, evs[:40], [("flip a signature byte", "C01:signature", w_sig), ("flip a session byte", "C03:session-of-this-login", w_sess),
                                ("flip a device-id byte", "C03:device-id", w_dev), ("remove a command frame", "harness:reply-out-of-turn", w_drop),
                                ("returned watts + 1", "C08:power", r_state), ("outcome turned into KeyError", "C09:state-query-raised-other-exception", r_exc)]))
    # bridge ----------------------------------------------------------------------------------------
    p, evs = _record("C07", lambda s: True)
    def b_name(e):
        i = _first(e, lambda x: x["ev"] == "Dgram" and len(x["delivered"]) == 1); e[i]["delivered"][0]["name"].append(33); return e
    def b_none(e):
        i = _first(e, lambda x: x["ev"] == "Dgram" and len(x["delivered"]) == 1); e[i]["delivered"] = []; return e
    def b_twice(e):
        i = _first(e, lambda x: x["ev"] == "Dgram" and len(x["delivered"]) == 1); e[i]["delivered"] = e[i]["delivered"] * 2; return e
    def b_flag(e):
        i = _first(e, lambda x: x["ev"] == "Obs" and x["running"]); e[i]["running"] = False; return e
    plan.append((p, evs, [("delivered name altered", "C05:name", b_name), ("a delivery removed", "C07:exactly-one-callback-per-valid-broadcast", b_none),
                          ("a delivery duplicated", "C07:exactly-one-callback-per-valid-broadcast", b_twice), ("running flag flipped", "C17:running-flag", b_flag)]))

    # events added later: the dialled port (C19), the caller's day set after the call (C13), an unanswered frame's late answer
    # met by the next exchange (C03), a running bridge that hears nothing (C17), the login-key script (X06)
    p, evs = _record("C19", lambda s: s.get("kind") == "dial" and len(s["hist"]) > 2)
    def dial(e):
        e[0]["ports"][-1] = 10000 if e[0]["ports"][-1] == 9957 else 9957; return e
    plan.append((p, evs, [("last dialled port changed", "C19:control-port-dialled", dial)]))
    p, evs = _record("C13", lambda s: True)
    def kept(e):
        i = _first(e, lambda x: x["ev"] == "Next" and len(x["days"]) >= 2); e[i]["after"] = e[i]["after"][1:]; return e
    plan.append((p, evs[:400], [("a day missing from the caller's set after the call", "C13:day-set-changed-by-the-call", kept)]))
    p, evs = _record("C17", lambda s: sum(1 for st in s["steps"] if st["do"] == "dgram") >= 1 and s["steps"][0]["do"] in ("start", "enter"))
    def deaf(e):
        i = _first(e, lambda x: x["ev"] == "Dgram" and len(x["delivered"]) == 1 and not x.get("cut")); e[i]["delivered"] = []; return e
    try:
        plan.append((p, evs, [("a running bridge hears nothing", "C17:holds-the-port-but-does-not-hear", deaf)]))
        _first(evs, lambda x: x["ev"] == "Dgram" and len(x["delivered"]) == 1 and not x.get("cut"))
    except StopIteration:
        plan.pop()
    # C18: the device resets the session; the socket closed behind a connected client; a connect that opens nothing
    p, evs = _record("C18", lambda s: s["mode"] == "virtual" and s["word"][:4] == ["connect", "op-reset", "disconnect", "connect"])
    def l_eof(e):
        i = _first(e, lambda x: x["ev"] == "Flag" and x["flag"]); e[i]["eofnow"] = True; return e
    def l_new(e):
        i = max(k for k, x in enumerate(e) if x["ev"] == "Connect" and x["ok"]); e[i]["newconn"] = False; return e
    def l_flag(e):
        i = _first(e, lambda x: x["ev"] == "Reset")
        j = next(k for k in range(i, len(e)) if e[k]["ev"] == "Flag"); e[j]["flag"] = False; return e
    def l_hook(e):
        i = _first(e, lambda x: x["ev"] == "Reset"); del e[i]; return e
    plan.append((p, evs, [("the device saw end-of-stream while connected", "C18:socket-closed-while-connected", l_eof),
                          ("the reconnect reached no device", "C18:connect-opened-no-connection", l_new),
                          ("flag cleared by the reset", "C18:connected-iff-open", l_flag),
                          ("the reset event removed", "C18:disconnect-raised", l_hook)]))
    px = props.load("X06")
    ctxx = Ctx("quick", 20260927)
    sx = [s for s in px.scenarios(ctxx) if any(d["src"] == s["ip"] and d["at"] < 1900 and ("d" in d or len(d.get("raw", [])) >= 41) for d in s["dgrams"])][:1]
    sx[0]["tid"] = 1
    evx = px.execute_all(ctxx, sx)[0]
    def key(e):
        e[0]["printed"] = [[48, 48]] if e[0]["printed"] != [[48, 48]] else [[48, 49]]; return e
    plan.append((px, evx, [("another key printed", "X06:prints-the-key-of-the-first-datagram-from-the-device", key)]))

    for p, evs, muts in plan:
        base = copy.deepcopy(evs)
        for n, e in enumerate(base):
            e["tid"] = 1
            e["k"] = n
        vs = _variants(evs, muts)
        scenarios = [base] + [v[2] for v in vs if v[2] is not None]
        res = tlc.validate(p.trace_module, scenarios, cfg=p.trace_cfg, shards=4)
        bad_by_tid: dict[int, set] = {}
        for b in res["bad"]:
            bad_by_tid.setdefault(b["tid"], set()).update(b["why"])
        if bad_by_tid.get(1):
            print(f"{p.trace_module}: the untouched recording is rejected: {sorted(bad_by_tid[1])}")
            ok = False
        for k, (label, clause, e2) in enumerate(vs):
            got = bad_by_tid.get(100 + k, set())
            good = clause in got
            ok &= good
            print(f"{p.trace_module:15s} {label:40s} -> {'REJECTED ' + clause if good else 'NOT REJECTED (got ' + str(sorted(got)) + ')'}")
    print("bindtest:", "all corruptions rejected, all untouched recordings accepted" if ok else "FAILED")
    return 0 if ok else 1
