"""Unusual-but-legal process environments a scenario may run under: debug logging switched on for the library, a
non-default `decimal` context in the calling thread, ...  None of them may change what the library does."""
from __future__ import annotations

import contextlib
import decimal
import logging

DECIMALS = {
    "down": dict(rounding=decimal.ROUND_DOWN), "up": dict(rounding=decimal.ROUND_UP), "halfup": dict(rounding=decimal.ROUND_HALF_UP),
    "ceil": dict(rounding=decimal.ROUND_CEILING), "prec3": dict(prec=3), "floor": dict(rounding=decimal.ROUND_FLOOR),
}


def pick(index: int) -> dict:
    env = {}
    if index % 5 == 1:
        env["debug"] = True
    if index % 7 == 2:
        env["decimal"] = sorted(DECIMALS)[(index // 7) % len(DECIMALS)]
    return env


@contextlib.contextmanager
def apply(env: dict | None):
    env = env or {}
    with contextlib.ExitStack() as st:
        if env.get("debug"):
            lg = logging.getLogger("aioswitcher")
            old = lg.level
            lg.setLevel(logging.DEBUG)
            st.callback(lg.setLevel, old)
        if env.get("decimal"):
            ctx = decimal.getcontext().copy()
            for k, v in DECIMALS[env["decimal"]].items():
                setattr(ctx, k, v)
            if env["decimal"] == "prec3":
                ctx.traps[decimal.Inexact] = True
            st.enter_context(decimal.localcontext(ctx))
        yield
