"""CLI:  ./check <ID> [--tier quick|thorough] [--replay FILE] | setup | list"""
from __future__ import annotations

import argparse
import os
import sys


def main() -> int:
    ap = argparse.ArgumentParser(prog="check")
    ap.add_argument("what")
    ap.add_argument("rest", nargs="*")
    ap.add_argument("--tier", default=os.environ.get("VERIF_TIER", "quick"), choices=["quick", "thorough"])
    ap.add_argument("--replay", default=None)
    ap.add_argument("--seed", type=int, default=None)
    a = ap.parse_args()
    seed = a.seed if a.seed is not None else int(os.environ.get("VERIF_SEED", "20260927") or 0)
    if a.replay:
        try:
            import json
            seed = int(json.load(open(a.replay)).get("seed", seed))
        except Exception:  # noqa: BLE001 - an unreadable replay file is reported by run_check
            pass
    # string hashing (hence the iteration order of sets of weekdays, of dictionaries keyed by text ...) is part of the process
    # environment: it follows the seed, so that different seeds see different orders and a replay sees the recorded one
    want = str(seed % 4294967295)
    if a.what not in ("setup", "selftest", "bindtest") and os.environ.get("PYTHONHASHSEED") != want:
        env = dict(os.environ, PYTHONHASHSEED=want)
        os.execve(sys.executable, [sys.executable, "-m", "harness"] + sys.argv[1:], env)
    if a.what == "setup":
        from .setup import setup
        return setup()
    if a.what == "bindtest":
        from .bindtest import bindtest
        return bindtest()
    if a.what == "selftest":
        from .selftest import selftest
        return selftest(a.rest)
    import logging
    logging.getLogger("aioswitcher").addHandler(logging.NullHandler())   # keep the library's log lines off stderr
    from . import props
    from .core import run_check
    if a.what == "beyond":          # every specification part outside the listed properties
        rc = 0
        for x in props.BEYOND:
            rc = max(rc, run_check(props.load(x), a.tier, seed, None))
        return rc
    pid = a.what.upper()
    if pid not in props.IDS + props.BEYOND:
        print(f"unknown property {a.what}")
        return 2
    try:
        prop = props.load(pid)
    except Exception as e:  # the harness itself is broken: machinery failure, never a verdict
        import traceback
        traceback.print_exc()
        print(f"MACHINERY-FAILURE property={pid}: cannot load driver: {e}")
        return 2
    return run_check(prop, a.tier, seed, a.replay)


if __name__ == "__main__":
    sys.exit(main())
