"""Virtual clock and host time zone for the library under test, plus zone rules for the
specification (extracted with zoneinfo, independently of the libc paths the library uses)."""
from __future__ import annotations

import contextlib
import os
import time
from datetime import datetime, timedelta, timezone
from functools import lru_cache
from zoneinfo import ZoneInfo

import time_machine

ZONES_QUICK = ["UTC", "Asia/Jerusalem", "America/New_York", "Australia/Lord_Howe"]
ZONES_ALL = ZONES_QUICK + ["Asia/Kathmandu", "Pacific/Kiritimati", "Pacific/Pago_Pago", "Europe/London",
                           "America/St_Johns", "Pacific/Chatham", "Asia/Tokyo", "America/Sao_Paulo"]


def _off(z: ZoneInfo, t: int) -> int:
    return int(datetime.fromtimestamp(t, tz=z).utcoffset().total_seconds())


@lru_cache(maxsize=None)
def _transitions_year(name: str, year: int) -> tuple[tuple[int, int], ...]:
    """All offset changes of the zone in [Jan 1 year-1 day, Jan 1 year+1 + 1 day): ((utc_start, new_offset), ...)."""
    z = ZoneInfo(name)
    lo = int(datetime(year, 1, 1, tzinfo=timezone.utc).timestamp()) - 86400
    hi = int(datetime(year + 1, 1, 1, tzinfo=timezone.utc).timestamp()) + 86400
    out = []
    step = 6 * 3600
    t = lo
    prev = _off(z, t)
    while t < hi:
        n = t + step
        cur = _off(z, n)
        if cur != prev:
            a, b = t, n  # off(a) = prev, off(b) = cur ; find first instant with the new offset
            while b - a > 1:
                m = (a + b) // 2
                if _off(z, m) == prev:
                    a = m
                else:
                    b = m
            out.append((b, cur))
            prev = cur
        t = n
    return tuple(out)


def zone_rules(name: str, now: int, span_days: int = 3) -> list[list[int]]:
    """Rules <<utcStart, offset>> valid on [now - span, now + span] (first rule starts at 0)."""
    z = ZoneInfo(name)
    lo, hi = now - span_days * 86400, now + span_days * 86400
    rules = [[0, _off(z, lo)]]
    years = {datetime.fromtimestamp(lo, tz=timezone.utc).year, datetime.fromtimestamp(hi, tz=timezone.utc).year}
    for y in sorted(years):
        for start, off in _transitions_year(name, y):
            if lo < start <= hi and rules[-1][1] != off and rules[-1][0] < start:
                rules.append([start, off])
    return rules


def transition_days(name: str, year: int) -> list[int]:
    """UTC instants of the zone's offset changes in the year."""
    return [s for s, _ in _transitions_year(name, year)]


def local_instant(name: str, y: int, mo: int, d: int, hh: int = 12, mm: int = 0, ss: int = 0) -> int:
    return int(datetime(y, mo, d, hh, mm, ss, tzinfo=ZoneInfo(name)).timestamp())


@contextlib.contextmanager
def host_zone(name: str):
    old = os.environ.get("TZ")
    os.environ["TZ"] = name
    time.tzset()
    try:
        yield
    finally:
        if old is None:
            os.environ.pop("TZ", None)
        else:
            os.environ["TZ"] = old
        time.tzset()


@contextlib.contextmanager
def frozen(ts: float = 1_700_000_000.0):
    """Virtual clock: `with frozen(t) as clk: clk.move_to(t2)`; never ticks on its own."""
    with time_machine.travel(ts, tick=False) as tr:
        yield tr


def text(s: str) -> list[int]:
    return list(s.encode("utf-8", "surrogatepass"))
