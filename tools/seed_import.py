"""Development tool: confirm a seeded change produced by a sub-agent and keep it under /verif/seeded/<id>/.
   usage: seed_import.py <property id> <A|B> [extra check ids...]
Confirms, in scratch copies outside /repo and /verif: the demonstration passes on the clean tree, the patch applies,
the repository's own tests stay at their baseline, the demonstration fails with the patch; then runs the property's
quick check (and any extra ones) with VERIF_REPO=<copy> and records everything in meta.json."""
import json, os, shutil, subprocess, sys
from pathlib import Path
sys.path.insert(0, "/verif")
from harness.selftest import scratch_copy, run_repo_tests, run_check

pid, which = sys.argv[1], sys.argv[2]
extra = [a for a in sys.argv[3:] if not a.startswith("--")]
wtname = next((a.split("=", 1)[1] for a in sys.argv[3:] if a.startswith("--dir=")), pid)
src = Path(f"/tmp/wt/{wtname}/_seed/{which}")
sid = f"{pid}-{which}" if wtname == pid else (f"{pid}-{wtname}{which}" if wtname[0] in "QUVWYZADE" else f"{pid}-{wtname[0]}{which}")
dst = Path("/verif/seeded") / sid
demo = next(iter(list(src.glob("demo*.py")) + list(src.glob("*.py"))), None)
assert (src / "patch.diff").exists() and demo, f"incomplete seed in {src}"

def run_demo(d: Path) -> int:
    env = dict(os.environ, PYTHONPATH=str(d / "src"), PYTHONDONTWRITEBYTECODE="1")
    # keep the demonstration where its author had it (<tree>/_seed/<X>/demo_test.py): some locate test resources relative to it
    (d / "_seed" / which).mkdir(parents=True, exist_ok=True)
    shutil.copy(demo, d / "_seed" / which / "demo_test.py")
    p = subprocess.run(["/venv/bin/python", "-m", "pytest", "-q", "-p", "no:cacheprovider", "--timeout=300", f"_seed/{which}/demo_test.py"], cwd=d, env=env, capture_output=True, text=True)
    return p.returncode

meta = {"id": sid, "property": pid, "expect": [pid] + extra}
clean = scratch_copy()
try:
    meta["demo_on_clean_tree"] = "pass" if run_demo(clean) == 0 else "FAIL"
finally:
    shutil.rmtree(clean, ignore_errors=True)
d = scratch_copy()
try:
    # the sub-agents' worktrees are fresh checkouts with CRLF line endings (.gitattributes); /repo's working tree has LF
    lf = d / "_patch_lf.diff"
    lf.write_bytes((src / "patch.diff").read_bytes().replace(b"\r\n", b"\n"))
    r = subprocess.run(["patch", "-p1", "-i", str(lf)], cwd=d, capture_output=True, text=True)
    meta["patch_applies"] = r.returncode == 0
    if r.returncode != 0:
        print(r.stdout, r.stderr)
    t = run_repo_tests(d)
    meta["repo_tests_with_change"] = {"baseline_kept": t["ok"], "passed": t["n_pass"], "missing": t["missing"]}
    meta["demo_with_change"] = "fail" if run_demo(d) != 0 else "PASS (not demonstrated)"
    meta["checks"] = {}
    for c in [pid] + extra:
        res = run_check(c, d)
        meta["checks"][c] = {"exit": res["rc"], "violation_lines": res["violations"], "clauses": res["clauses"]}
finally:
    shutil.rmtree(d, ignore_errors=True)
notes = (src / "notes.md").read_text() if (src / "notes.md").exists() else ""
meta["breaks"] = pid + " (statement in /verif/properties.jsonl; mechanism in notes.md)"
import re as _re
_lines = notes.splitlines()
_idx = next((i for i, l in enumerate(_lines) if _re.search(r"(what it needs|needs to manifest|needs in order|needs:|\*\*needs|trigger|manifests? (only )?(when|for|if)|in order to manifest)", l.lower())), None)
meta["needs_to_manifest"] = " ".join(x.strip() for x in _lines[_idx:_idx + 14] if x.strip())[:700] if _idx is not None else "see notes.md"
meta["ran"] = "tools/seed_import.py: demo on clean copy; patch -p1; repo suite at a virtual noon with PYTHONPATH=<copy>/src; demo with change; ./check <id> --tier quick with VERIF_REPO=<copy>"
confirmed = meta["demo_on_clean_tree"] == "pass" and meta["patch_applies"] and t["ok"] and meta["demo_with_change"] == "fail"
meta["confirmed"] = confirmed
print(json.dumps(meta, indent=1))
if confirmed:
    dst.mkdir(parents=True, exist_ok=True)
    (dst / "patch.diff").write_bytes((src / "patch.diff").read_bytes().replace(b"\r\n", b"\n"))
    shutil.copy(demo, dst / "demo_test.py")
    if notes:
        (dst / "notes.md").write_text(notes)
    (dst / "meta.json").write_text(json.dumps(meta, indent=1))
    print("kept as", dst)
else:
    print("NOT kept (could not confirm all of: demo passes clean, patch applies, tests at baseline, demo fails with change)")
