"""dev tool: run a property's scenarios and print scenarios whose verdict contains a clause"""
import sys, json, logging
logging.getLogger("aioswitcher").addHandler(logging.NullHandler())
sys.path.insert(0, "/verif")
from harness import props, tlc
from harness.core import Ctx
pid, needle = sys.argv[1], sys.argv[2]
p = props.load(pid); ctx = Ctx("quick", 20260927)
scns = p.scenarios(ctx)
for n, s in enumerate(scns): s.setdefault("tid", n + 1)
runs = p.execute_all(ctx, scns)
v = tlc.validate(p.trace_module, runs, cfg=p.trace_cfg)
shown = 0
for b in v["bad"]:
    if any(needle in c for c in b["why"]):
        evs = next(r for r in runs if r and r[0]["tid"] == b["tid"])
        print("----", b)
        for e in evs:
            x = dict(e)
            for f in ("b",):
                if f in x: x[f] = f"<{len(x[f])} bytes> " + bytes(x[f][:48]).hex()
            if "a" in x:
                x["a"] = {k: (v if k not in ("zone", "set") else "...") for k, v in x["a"].items()}
            print("  ", x)
        shown += 1
        if shown >= int(sys.argv[3]) if len(sys.argv) > 3 else shown >= 2: break
