"""Development tool: apply a behaviour-preserving refactoring produced by a sub-agent to a scratch copy and require that
the repository's tests stay at baseline AND that the given quick checks stay silent (exit 0).
   usage: refactor_eval.py <worktree name> <R1|R2|R3> <check ids...>"""
import json, os, shutil, subprocess, sys
from concurrent.futures import ThreadPoolExecutor
from pathlib import Path
sys.path.insert(0, "/verif")
from harness.selftest import scratch_copy, run_repo_tests, run_check

wt, which, checks = sys.argv[1], sys.argv[2], sys.argv[3:]
src = Path(f"/tmp/wt/{wt}/_seed/{which}/patch.diff")
d = scratch_copy()
try:
    lf = d / "_patch_lf.diff"
    lf.write_bytes(src.read_bytes().replace(b"\r\n", b"\n"))
    r = subprocess.run(["patch", "-p1", "-i", str(lf)], cwd=d, capture_output=True, text=True)
    if r.returncode != 0:
        print(f"{wt}-{which}: PATCH DOES NOT APPLY", r.stdout[-300:]); sys.exit(2)
    t = run_repo_tests(d)
    with ThreadPoolExecutor(max_workers=3) as ex:
        res = dict(zip(checks, ex.map(lambda c: run_check(c, d), checks)))
    alarms = {c: v for c, v in res.items() if v["rc"] != 0}
    print(f"{wt}-{which}: repo tests {'baseline' if t['ok'] else 'BROKEN ' + str(t['missing'])}; checks run: {' '.join(checks)}; "
          + ("ALL SILENT" if not alarms else "ALARMS: " + json.dumps({c: (v['rc'], v['clauses'], v['tail']) for c, v in alarms.items()})), flush=True)
    keep = Path("/verif/seeded") / f"refactor-{wt}-{which}"
    keep.mkdir(parents=True, exist_ok=True)
    (keep / "patch.diff").write_bytes(lf.read_bytes())
    notes = src.parent / "notes.md"
    if notes.exists():
        shutil.copy(notes, keep / "notes.md")
    (keep / "meta.json").write_text(json.dumps({"id": keep.name, "kind": "behaviour-preserving refactoring (false-alarm probe)", "expect": [],
        "silent": checks, "repo_tests_with_change": t, "result": {c: {"exit": v["rc"], "clauses": v["clauses"]} for c, v in res.items()}}, indent=1))
finally:
    shutil.rmtree(d, ignore_errors=True)
