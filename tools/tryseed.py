"""dev tool: apply seeded/<id>/patch.diff (or a patch file) to a scratch copy of /repo and run checks on it.
   usage: tryseed.py <seed id | patch file> <check id>... [--tier thorough] [--keep]"""
import os, shutil, subprocess, sys
from pathlib import Path
sys.path.insert(0, "/verif")
from harness.selftest import scratch_copy
args = [a for a in sys.argv[1:] if not a.startswith("--")]
tier = "thorough" if "--tier=thorough" in sys.argv else "quick"
what, checks = args[0], args[1:]
patch = Path(what) if Path(what).is_file() else Path("/verif/seeded") / what / "patch.diff"
d = scratch_copy()
try:
    lf = d / "_p.diff"
    lf.write_bytes(patch.read_bytes().replace(b"\r\n", b"\n"))
    r = subprocess.run(["patch", "-p1", "-i", str(lf)], cwd=d, capture_output=True, text=True)
    print("patch rc", r.returncode, r.stdout.strip().splitlines()[-1:] if r.returncode else "")
    for c in checks:
        env = dict(os.environ, VERIF_REPO=str(d))
        p = subprocess.run(["/verif/check", c, "--tier", tier], cwd="/verif", env=env, capture_output=True, text=True)
        lines = (p.stdout + p.stderr).splitlines()
        keep = [l for l in lines if l.startswith(("VIOLATION", "OK ", "MACHINERY", "KNOWN", "DIVERGENCE")) or "clauses=" in l or "Traceback" in l or "Error" in l]
        print(f"== {c} rc={p.returncode}")
        for l in (keep[:14] if "--all" not in sys.argv else lines[-60:]):
            print("  ", l[:400])
finally:
    if "--keep" in sys.argv:
        print("kept", d)
    else:
        shutil.rmtree(d, ignore_errors=True)
