"""Development tool: regenerate MANIFEST.json from the drivers that exist.
Run:  PYTHONPATH=/verif /venv/bin/python tools/gen_manifest.py
"""
import importlib
import json
from pathlib import Path

ROOT = Path(__file__).resolve().parent.parent
META = json.loads((ROOT / "tools" / "manifest_meta.json").read_text())
props = [json.loads(l) for l in (ROOT / "properties.jsonl").read_text().splitlines() if l.strip()]

checks, na = [], []
for p in props:
    pid = p["id"]
    m = META["checks"].get(pid)
    if not m or not (ROOT / "harness" / "props" / f"{pid.lower()}.py").exists():
        na.append({"property_id": pid, "reason": META["not_yet"].get(pid, "driver not built yet in this round; the specification modules it needs are planned in DESIGN.md section 5")})
        continue
    checks.append({
        "property_id": pid,
        "quick_cmd": f"./check {pid} --tier quick",
        "thorough_cmd": f"./check {pid} --tier thorough",
        "evidence_file": f"/verif/evidence/{pid}.json",
        "replay_cmd_template": f"./check {pid} --replay {{path}}",
        "engine": "tlc",
        "level_claimed": {"category": "model_checking", "text": m["level_text"], "design_ref": m.get("design_ref", f"DESIGN.md section 5, {pid}")},
        "level_note": m["level_note"],
        "technique": m["technique"],
    })
man = {
    "version": 1,
    "setup_cmd": "./check setup",
    "hooks": {
        "guard": "AIOSWITCHER_VERIF",
        "enable": "no source hooks are needed: every linearization point is observable at the event-loop/socket/clock boundary the harness owns (DESIGN.md 4.1); checks import aioswitcher from /repo/src (editable install), i.e. the current working tree",
        "baseline_off_cmd": "cd /repo && /venv/bin/python -m pytest -ra -q -p no:cacheprovider --timeout=900 --continue-on-collection-errors",
        "source_commits": [],
        "add_only": True,
    },
    "engines": [
        {"name": "tlc", "path": "/verif/harness/tlc.py", "serves_properties": [c["property_id"] for c in checks],
         "kind_free_text": "TLC 1.8 model checker on the explicit TLA+ specification in /verif/spec: bounded-exhaustive model runs (MC_*.cfg) plus trace validation (Trace_*.tla) of behaviour recorded from the real library, and replay of TLC-generated behaviours into the library"},
    ],
    "checks": checks,
    "notes": META["notes"],
    "not_applicable": na,
}
(ROOT / "MANIFEST.json").write_text(json.dumps(man, indent=1) + "\n")
print("checks:", [c["property_id"] for c in checks], "not_applicable:", [n["property_id"] for n in na])
