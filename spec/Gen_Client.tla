------------------------------ MODULE Gen_Client ------------------------------
(***************************************************************************)
(* spec -> code: MC_Client with a history of the ENVIRONMENT's choices -    *)
(* which operation each instance starts, which class of reply the device    *)
(* gives and to whom it is released first, when the clock ticks.  TLC's     *)
(* simulator picks the schedules and fault patterns; harness/tcpdrive.py    *)
(* replays each script against the real clients (which take their own steps *)
(* whenever the loop lets them) and the recorded run is judged by TLC       *)
(* through Trace_Client.                                                    *)
(***************************************************************************)
EXTENDS MC_Client, Json

CONSTANT Depth
VARIABLE env
gvars == <<vars, env>>

ShapeOf(b) == [set |-> IF b.set.id = PlainSet.id THEN "plain" ELSE "sep", state |-> b.state, mode |-> b.mode, temp |-> b.temp,
               fan |-> b.fan, swing |-> b.swing, update |-> b.update]
GCall(c) ==
  /\ inst[c].pc = "idle" /\ ndone[c] < MaxOps
  /\ \E k \in Calls(c) :
       /\ inst' = [inst EXCEPT ![c] = BeginCall(@, k[1], k[2], k[3], k[4], <<0, clock>>)]
       /\ env' = Append(env, [a |-> "call", c |-> c, op |-> k[1], arg |-> k[2], shape |-> ShapeOf(k[4])])
  /\ sessions' = [sessions EXCEPT ![c] = Append(@, <<>>)]
  /\ UNCHANGED <<written, nextSess, clock, ndone, eof, last>>
GReply(c) ==
  /\ inst[c].pc \in {"waitlogin", "waitcmd"}
  /\ \E r \in Summaries(c) :
       /\ inst' = [inst EXCEPT ![c] = OnReply(@, r)]
       /\ eof' = [eof EXCEPT ![c] = @ \/ r.empty]
       /\ nextSess' = IF inst[c].pc = "waitlogin" /\ r.carried THEN nextSess + 1 ELSE nextSess
       /\ sessions' = IF inst[c].pc = "waitlogin" /\ r.carried THEN [sessions EXCEPT ![c][Opn(c)] = r.sess] ELSE sessions
       /\ env' = Append(env, [a |-> "reply", c |-> c, phase |-> inst[c].pc, op |-> inst[c].op, empty |-> r.empty, carried |-> r.carried,
                              wf |-> r.wf, th |-> [state |-> r.th.state, mode |-> r.th.mode, target |-> r.th.target, fan |-> r.th.fan, swing |-> r.th.swing]])
  /\ UNCHANGED <<written, clock, ndone, last>>
GTick == Tick /\ env' = Append(env, [a |-> "tick"])

GInit == Init /\ env = <<>>
GNext == GTick \/ \E c \in Clients : GCall(c) \/ GReply(c)
                                     \/ ((LoginWrite(c) \/ CmdWrite(c) \/ FreeWrite(c) \/ Ret(c)) /\ UNCHANGED env)
GSpec == GInit /\ [][GNext]_gvars
Finished == \A c \in Clients : inst[c].pc = "idle" /\ ndone[c] = MaxOps
Emit == (TLCGet("level") < Depth /\ ~Finished) \/ PrintT(<<"BEHAVIOUR", ToJson(env)>>)
=============================================================================
