------------------------------ MODULE MC_Remote ------------------------------
(* Synthetic IR sets (cool mode + one fan-less mode, two temperatures, two fan *)
(* levels) with every subset of the optional keys present or absent, toggle    *)
(* and plain, x all requests: every fallback path of Resolve is taken and the  *)
(* characterising laws hold.                                                   *)
EXTENDS Remote, TLC
W(key) == [key |-> key, para |-> <<80>> \o key, hex |-> <<72, 88>> \o key]     \* para/hex derived from the key: distinguishable
K(m, t, f, s) == ModeCode(m) \o (IF t > 0 THEN Decimal(t) ELSE <<>>) \o (IF f >= 0 THEN FanPart(f) ELSE <<>>) \o (IF s = 1 THEN SwingPart ELSE <<>>)
Optional == << K(4, 20, 1, 1), K(4, 20, 1, 0), K(4, 20, -1, 0), K(4, 24, 1, 0), K(2, 0, 1, 1), K(2, 0, 1, 0), K(2, 0, -1, 0),
               OnPrefix \o K(4, 20, 1, 0), OnPrefix \o K(4, 20, -1, 0), OffKey >>
Always == << K(4, 18, 0, 0) >>       \* keeps "cool" supported and the range non-empty
SetOf(mask, toggle) ==
  [id |-> <<88>>, onoff |-> toggle,
   waves |-> [k \in 1..Len(Always) |-> W(Always[k])] \o
             [k \in 1..Cardinality({j \in 1..Len(Optional) : (mask \div (2 ^ (j - 1))) % 2 = 1}) |->
                W(Optional[CHOOSE j \in 1..Len(Optional) :
                      (mask \div (2 ^ (j - 1))) % 2 = 1 /\ Cardinality({i \in 1..j : (mask \div (2 ^ (i - 1))) % 2 = 1}) = k])]]
Requests == [state : {0, 1}, mode : {2, 4, 5}, temp : {0, 19, 20, 24, 40}, fan : {1, 2}, swing : {0, 1}, prev : {-1, 0, 1}]

CONSTANT Masks
AllMasks == 0..(2 ^ Len(Optional) - 1)
SomeMasks == {m \in AllMasks : (m * 37) % 8 = 0}
VARIABLES mask, toggle, r
Init == mask = -1 /\ toggle = -1 /\ r = [mode |-> 0]
Next == \/ mask = -1 /\ mask' \in Masks /\ UNCHANGED <<toggle, r>>
        \/ mask >= 0 /\ toggle = -1 /\ toggle' \in {0, 1} /\ UNCHANGED <<mask, r>>
        \/ toggle >= 0 /\ r.mode = 0 /\ r' \in Requests /\ UNCHANGED <<mask, toggle>>
Spec == Init /\ [][Next]_<<mask, toggle, r>>
Ready == r.mode # 0
S == SetOf(mask, toggle)
Res == Resolve(S, r)

UnsupportedIffAbsent == Ready => ((Res.kind = "unsupported") <=> ~\E key \in KeysOf(S) : SubSeq(key, 1, 2) = ModeCode(r.mode))
CodeIsStored == Ready /\ Res.kind = "code" => HasKey(S, Res.key) /\ Res.entry.key = Res.key /\ Res.entry.para = <<80>> \o Res.key
MostSpecific == Ready /\ Res.kind = "code" /\ Res.key # OffKey =>
   \E k \in 1..Len(Chain(S, r)) : Chain(S, r)[k] = Res.key /\ \A j \in 1..(k - 1) : ~HasKey(S, Chain(S, r)[j])
ExactWins == Ready /\ Res.kind # "unsupported" /\ (toggle = 1 \/ r.state = 1) /\ HasKey(S, Chain(S, r)[1]) => Res.kind = "code" /\ Res.key = Chain(S, r)[1]
PlainOff == Ready /\ toggle = 0 /\ r.state = 0 /\ Res.kind = "code" => Res.key = OffKey
PrefixOnlyWhenToggling == Ready /\ Res.kind = "code" /\ Len(Res.key) >= 3 /\ SubSeq(Res.key, 1, 3) = OnPrefix => toggle = 1 /\ r.prev # -1 /\ r.prev # r.state
ClampedIntoRange == Ready /\ Res.kind = "code" /\ UsesTemp(r.mode) /\ Res.key # OffKey =>
   \E t \in MinTemp(S)..MaxTemp(S) : HasSub(Res.key, ModeCode(r.mode) \o Decimal(t))
PayloadShape == Ready /\ Res.kind = "code" =>
   LET p == Payload(Res.entry) IN SubSeq(p, 1, 4) = Zeros(4) /\ Len(p) = 5 + Len(Res.entry.para) + Len(Res.entry.hex) /\ LenField(p) = <<Len(p) % 256, Len(p) \div 256>>
ASSUME SupportedModes(SetOf(0, 0)) = {4} /\ Temps(SetOf(0, 0)) = {18} /\ Temps(SetOf(9, 0)) = {18, 20, 24}
=============================================================================
