SPECIFICATION Spec
CONSTANTS MaxOps = 3
          Splits = FALSE
INVARIANT SessionOfThisLogin
CHECK_DEADLOCK FALSE
