SPECIFICATION Spec
CONSTANTS NPorts = 2
          MaxQueue = 2
          MaxSent = 3
INVARIANT RunningIffListening
INVARIANT NothingBoundWhenStopped
INVARIANT StopIdempotent
INVARIANT Restartable
INVARIANT CoreAgrees
INVARIANT DeliveryExact
INVARIANT NeverStuck
PROPERTY FailedStartClean
PROPERTY NoCallbackUnlessListening
PROPERTY NoCallbackAfterStop
PROPERTY ReleasedAfterCycle
CHECK_DEADLOCK FALSE
