SPECIFICATION GSpec
CONSTANTS NPorts = 3
          MaxQueue = 2
          MaxSent = 6
          Depth = 18
CONSTRAINT Emit
CHECK_DEADLOCK FALSE
