--------------------------- MODULE MC_ClientShared ---------------------------
(***************************************************************************)
(* A NEGATIVE model (DESIGN.md section 10, item 4): two tasks use ONE API   *)
(* object - one connection, one stream reader - at the same time.  The      *)
(* library has no lock around an exchange, so a task's read may return the  *)
(* reply meant for the other task.  TLC is expected to VIOLATE              *)
(* SessionOfOwnLogin and exhibit the interleaving; the listed property C03  *)
(* quantifies over "operations on different API instances" and says nothing *)
(* about this use.  The run is registered with expect_violation so that the *)
(* hazard stays documented by a machine-found counterexample.               *)
(***************************************************************************)
EXTENDS Naturals, Sequences, TLC
Tasks == {1, 2}
VARIABLES pc,        \* per task: "start", "waitlogin", "waitcmd", "done"
          sent,      \* what the device received, in order: <<task, kind, session>>
          pipe,      \* replies on their way back (one stream for both tasks): <<for task, kind, session>>
          got,       \* per task: the session it read as "its" login reply
          nextSess
vars == <<pc, sent, pipe, got, nextSess>>
Init == pc = [t \in Tasks |-> "start"] /\ sent = <<>> /\ pipe = <<>> /\ got = [t \in Tasks |-> 0] /\ nextSess = 1
WriteLogin(t) == pc[t] = "start" /\ pc' = [pc EXCEPT ![t] = "waitlogin"] /\ sent' = Append(sent, <<t, "login", 0>>)
                 /\ pipe' = Append(pipe, <<t, "login", nextSess>>) /\ nextSess' = nextSess + 1 /\ UNCHANGED got
\* a task waiting for a reply takes whatever comes next on the shared stream
ReadLogin(t) == pc[t] = "waitlogin" /\ pipe # <<>> /\ got' = [got EXCEPT ![t] = Head(pipe)[3]] /\ pipe' = Tail(pipe)
                /\ pc' = [pc EXCEPT ![t] = "waitcmd"] /\ sent' = Append(sent, <<t, "cmd", Head(pipe)[3]>>) /\ UNCHANGED nextSess
Next == \E t \in Tasks : WriteLogin(t) \/ ReadLogin(t)
Spec == Init /\ [][Next]_vars
\* what C03 would demand if it covered this use: a command carries the session issued for ITS task's login
IssuedTo(t) == {sent[k][3] : k \in {}} \cup {s \in 1..(nextSess - 1) : \E k \in 1..Len(sent) : sent[k] = <<t, "login", 0>>
                                              /\ s = 1 + Len(SelectSeq(SubSeq(sent, 1, k - 1), LAMBDA x : x[2] = "login"))}
SessionOfOwnLogin == \A k \in 1..Len(sent) : sent[k][2] = "cmd" => sent[k][3] \in IssuedTo(sent[k][1])
=============================================================================
