---------------------------- MODULE MC_ClientLife ----------------------------
(***************************************************************************)
(* C18 on the model: the life cycle of one API object against one device.   *)
(* sock: the client's socket ("none", "open", "closed"); flag: `connected`; *)
(* devOpen: connections the device currently holds open; eofSeen: the device*)
(* saw end-of-stream on the last connection; inCtx: inside `async with`.    *)
(* Operations are abstracted to "succeeds" / "raises".                      *)
(* The device may also RESET the session in the middle of an operation      *)
(* (sock = "reset": the client still counts as connected); disconnecting    *)
(* such a session is outside the statement - the library raises and keeps   *)
(* the flag (sock = "limbo", flag open) - but a later connect must work.    *)
(***************************************************************************)
EXTENDS Naturals, TLC
CONSTANT MaxSteps
VARIABLES sock, flag, devOpen, eofSeen, inCtx, steps, lastRaised
vars == <<sock, flag, devOpen, eofSeen, inCtx, steps, lastRaised>>
Init == sock = "none" /\ flag = FALSE /\ devOpen = 0 /\ eofSeen = FALSE /\ inCtx = FALSE /\ steps = 0 /\ lastRaised = FALSE
Tick == steps < MaxSteps /\ steps' = steps + 1

Connect == /\ Tick /\ sock \notin {"open", "reset"} /\ ~inCtx
           /\ sock' = "open" /\ flag' = TRUE /\ devOpen' = devOpen + 1 /\ eofSeen' = FALSE /\ lastRaised' = FALSE /\ UNCHANGED inCtx
ConnectRefused == /\ Tick /\ sock \notin {"open", "reset"} /\ ~inCtx
                  /\ lastRaised' = TRUE /\ UNCHANGED <<sock, flag, devOpen, eofSeen, inCtx>>
Enter == /\ Tick /\ sock \notin {"open", "reset"} /\ ~inCtx
         /\ sock' = "open" /\ flag' = TRUE /\ devOpen' = devOpen + 1 /\ eofSeen' = FALSE /\ inCtx' = TRUE /\ lastRaised' = FALSE
EnterRefused == /\ Tick /\ sock \notin {"open", "reset"} /\ ~inCtx /\ lastRaised' = TRUE /\ UNCHANGED <<sock, flag, devOpen, eofSeen, inCtx>>
OpOk == Tick /\ sock = "open" /\ lastRaised' = FALSE /\ UNCHANGED <<sock, flag, devOpen, eofSeen, inCtx>>
OpRaises == Tick /\ sock = "open" /\ lastRaised' = TRUE /\ UNCHANGED <<sock, flag, devOpen, eofSeen, inCtx>>
\* a connect() retried on a connected client and refused: nothing changes
RefusedWhileConnected == Tick /\ sock = "open" /\ lastRaised' = TRUE /\ UNCHANGED <<sock, flag, devOpen, eofSeen, inCtx>>
\* the device resets the session while an operation is under way: the operation fails, the device holds nothing any more,
\* it has seen no end of stream, and the client is still "connected" until somebody disconnects it
DeviceResets == /\ Tick /\ sock = "open" /\ sock' = "reset" /\ devOpen' = devOpen - 1 /\ lastRaised' = TRUE
                /\ UNCHANGED <<flag, eofSeen, inCtx>>
OpAfterReset == Tick /\ sock = "reset" /\ lastRaised' = TRUE /\ UNCHANGED <<sock, flag, devOpen, eofSeen, inCtx>>
\* what the library does when asked to disconnect a session the device has reset: wait_closed() raises, the flag stays
CloseAfterReset == /\ Tick /\ sock = "reset" /\ sock' = "limbo" /\ inCtx' = FALSE /\ lastRaised' = TRUE
                   /\ flag' \in BOOLEAN /\ UNCHANGED <<devOpen, eofSeen>>
Close == /\ sock \notin {"reset"}
         /\ sock' = IF sock = "open" THEN "closed" ELSE sock
         /\ flag' = FALSE
         /\ devOpen' = IF sock = "open" THEN devOpen - 1 ELSE devOpen
         /\ eofSeen' = IF sock = "open" THEN TRUE ELSE eofSeen
Disconnect == Tick /\ ~inCtx /\ Close /\ lastRaised' = FALSE /\ UNCHANGED inCtx
Leave == Tick /\ inCtx /\ Close /\ inCtx' = FALSE /\ lastRaised' = FALSE           \* leaving normally
BodyRaises == Tick /\ inCtx /\ Close /\ inCtx' = FALSE /\ lastRaised' = TRUE        \* leaving through an exception in the body
Next == Connect \/ ConnectRefused \/ Enter \/ EnterRefused \/ OpOk \/ OpRaises \/ Disconnect \/ Leave \/ BodyRaises
        \/ RefusedWhileConnected \/ DeviceResets \/ OpAfterReset \/ CloseAfterReset
Spec == Init /\ [][Next]_vars

ConnectedIffOpen == sock = "limbo" \/ (flag <=> sock \in {"open", "reset"})
NoLeakedConnection == devOpen = (IF sock = "open" THEN 1 ELSE 0)
EofAfterClose == sock = "closed" => eofSeen
DisconnectAlwaysPossible == (~inCtx /\ steps < MaxSteps) => ENABLED (Disconnect \/ CloseAfterReset)
DisconnectIdempotent == [][(sock # "open" /\ ~inCtx /\ flag' = FALSE /\ sock' = sock /\ steps' = steps + 1 /\ devOpen' = devOpen)
                              => eofSeen' = eofSeen]_vars
ReconnectPossible == (sock \notin {"open", "reset"} /\ ~inCtx /\ steps < MaxSteps) => ENABLED Connect
ResetKeepsTheFlag == [][sock' = "reset" => flag']_vars
RefusedLeavesDisconnected == [][(sock \in {"none", "closed"} /\ sock' # "open" /\ lastRaised') => ~flag']_vars
=============================================================================
