---------------------------- MODULE MC_ClientLife ----------------------------
(***************************************************************************)
(* C18 on the model: the life cycle of one API object against one device.   *)
(* sock: the client's socket ("none", "open", "closed"); flag: `connected`; *)
(* devOpen: connections the device currently holds open; eofSeen: the device*)
(* saw end-of-stream on the last connection; inCtx: inside `async with`.    *)
(* Operations are abstracted to "succeeds" / "raises".                      *)
(***************************************************************************)
EXTENDS Naturals, TLC
CONSTANT MaxSteps
VARIABLES sock, flag, devOpen, eofSeen, inCtx, steps, lastRaised
vars == <<sock, flag, devOpen, eofSeen, inCtx, steps, lastRaised>>
Init == sock = "none" /\ flag = FALSE /\ devOpen = 0 /\ eofSeen = FALSE /\ inCtx = FALSE /\ steps = 0 /\ lastRaised = FALSE
Tick == steps < MaxSteps /\ steps' = steps + 1

Connect == /\ Tick /\ sock # "open" /\ ~inCtx
           /\ sock' = "open" /\ flag' = TRUE /\ devOpen' = devOpen + 1 /\ eofSeen' = FALSE /\ lastRaised' = FALSE /\ UNCHANGED inCtx
ConnectRefused == /\ Tick /\ sock # "open" /\ ~inCtx
                  /\ lastRaised' = TRUE /\ UNCHANGED <<sock, flag, devOpen, eofSeen, inCtx>>
Enter == /\ Tick /\ sock # "open" /\ ~inCtx
         /\ sock' = "open" /\ flag' = TRUE /\ devOpen' = devOpen + 1 /\ eofSeen' = FALSE /\ inCtx' = TRUE /\ lastRaised' = FALSE
EnterRefused == /\ Tick /\ sock # "open" /\ ~inCtx /\ lastRaised' = TRUE /\ UNCHANGED <<sock, flag, devOpen, eofSeen, inCtx>>
OpOk == Tick /\ sock = "open" /\ lastRaised' = FALSE /\ UNCHANGED <<sock, flag, devOpen, eofSeen, inCtx>>
OpRaises == Tick /\ sock = "open" /\ lastRaised' = TRUE /\ UNCHANGED <<sock, flag, devOpen, eofSeen, inCtx>>
Close == /\ sock' = IF sock = "open" THEN "closed" ELSE sock
         /\ flag' = FALSE
         /\ devOpen' = IF sock = "open" THEN devOpen - 1 ELSE devOpen
         /\ eofSeen' = IF sock = "open" THEN TRUE ELSE eofSeen
Disconnect == Tick /\ ~inCtx /\ Close /\ lastRaised' = FALSE /\ UNCHANGED inCtx
Leave == Tick /\ inCtx /\ Close /\ inCtx' = FALSE /\ lastRaised' = FALSE           \* leaving normally
BodyRaises == Tick /\ inCtx /\ Close /\ inCtx' = FALSE /\ lastRaised' = TRUE        \* leaving through an exception in the body
Next == Connect \/ ConnectRefused \/ Enter \/ EnterRefused \/ OpOk \/ OpRaises \/ Disconnect \/ Leave \/ BodyRaises
Spec == Init /\ [][Next]_vars

ConnectedIffOpen == flag <=> sock = "open"
NoLeakedConnection == devOpen = (IF sock = "open" THEN 1 ELSE 0)
EofAfterClose == sock = "closed" => eofSeen
DisconnectAlwaysPossible == (~inCtx /\ steps < MaxSteps) => ENABLED Disconnect
DisconnectIdempotent == [][(sock # "open" /\ ~inCtx /\ flag' = FALSE /\ sock' = sock /\ steps' = steps + 1 /\ devOpen' = devOpen)
                              => eofSeen' = eofSeen]_vars
ReconnectPossible == (sock # "open" /\ ~inCtx /\ steps < MaxSteps) => ENABLED Connect
RefusedLeavesDisconnected == [][(sock # "open" /\ sock' # "open" /\ lastRaised') => ~flag']_vars
=============================================================================
