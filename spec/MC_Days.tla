------------------------------- MODULE MC_Days -------------------------------
(* C12 on the model: all 128 weekday sets and all 256 masks (complete).      *)
EXTENDS Schedule, TLC
VARIABLES S, m
Init == S = {} /\ m = 0
\* tree: grow S by a day larger than its maximum; walk m upwards once from the root
Next == \/ /\ \E d \in WeekDays : (\A x \in S : x < d) /\ S' = S \cup {d}
           /\ m' = 0 /\ m = 0
        \/ /\ S = {} /\ m < 255 /\ m' = m + 1 /\ S' = S
Spec == Init /\ [][Next]_<<S, m>>

RoundTrip == DaysOf(DayMask(S)) = S
MaskShape == /\ DayMask(S) % 2 = 0 /\ DayMask(S) <= 254
             /\ (S # {} => MaskAccepted(DayMask(S)))
             /\ Len(MaskText(S)) = 2 /\ UnHex(MaskText(S)) = <<DayMask(S)>>
             /\ \A d \in WeekDays : (d \in S) <=> ((DayMask(S) \div DayBit(d)) % 2 = 1)
Injective == \A d \in WeekDays : d \notin S => DayMask(S \cup {d}) # DayMask(S)
\* every even mask in the accepted range is the mask of exactly the set it decodes to
MaskRoundTrip == (m % 2 = 0) => DayMask(DaysOf(m)) = m
OnlyEvenMasksAreImages == (m % 2 = 1) => \A T \in SUBSET WeekDays : DayMask(T) # m
=============================================================================
