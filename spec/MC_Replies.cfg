SPECIFICATION Spec
INVARIANT State1RoundTrip
INVARIANT ThermoRoundTrip
INVARIANT ShutterRoundTrip
CHECK_DEADLOCK FALSE
