SPECIFICATION Spec
CONSTANTS Timers = {1}
          AutoOffs = {3600}
          Step = 1800
          MaxAir = 1
          Fam = "heater"
INVARIANT TypeOK
PROPERTY SwitchesOffEventually
CHECK_DEADLOCK FALSE
