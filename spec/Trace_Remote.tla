----------------------------- MODULE Trace_Remote -----------------------------
(***************************************************************************)
(* code -> spec for C15.  Load installs the IR set the following Build /    *)
(* Swing events refer to (state variable cur).                              *)
(*  Load  set, modes: supported modes (1..5) reported, min, max, toggle,    *)
(*        sep, rid: remote id reported                                      *)
(*  Build req, outcome "ok"/"error", exc: exception class, msg: error text, *)
(*        cmd: command bytes, lenhex: the length text (4 hex digits)        *)
(*  Swing swing 0/1, outcome, exc, cmd, lenhex                              *)
(***************************************************************************)
EXTENDS Remote, TraceKit

VARIABLES i, bad, dropped, tags, cur

SeqToSet(q) == {q[k] : k \in 1..Len(q)}

JudgeLoad(e) ==
  LET s == e.set IN
  [why |-> Clause(SeqToSet(e.modes) = SupportedModes(s), "C15:supported-modes")
        \o (IF Temps(s) = {} THEN <<>> ELSE Clause(e.min = MinTemp(s) /\ e.max = MaxTemp(s), "C15:temperature-range"))
        \o Clause(e.toggle = IsToggle(s), "C15:toggle-type")
        \o Clause(e.sep = SeparateSwing(s), "C15:separate-swing-flag")
        \o Clause(e.rid = s.id, "C15:remote-id"),
   tag |-> (IF IsToggle(s) THEN "load-toggle" ELSE "load-plain") \o (IF SeparateSwing(s) THEN "-sepswing" ELSE "")]

LenOk(lenhex, payload) == Len(lenhex) = 4 /\ IsHexText(lenhex) /\ UnHex(lenhex) = LenField(payload)
JudgeCode(res, e, pre) ==
  IF e.outcome # "ok" THEN <<"C15:stored-code-not-built">>
  ELSE Clause(e.cmd = Payload(res.entry), "C15:stored-code")
    \o Clause(LenOk(e.lenhex, e.cmd), "C15:length-field")

JudgeBuild(e) ==
  LET res == Resolve(cur, e.req) IN
  CASE res.kind = "unsupported" ->
         [why |-> Clause(e.outcome = "error", "C15:unsupported-mode-must-be-refused")
               \o (IF e.outcome # "error" THEN <<>> ELSE
                   Clause(\A m \in SupportedModes(cur) : HasSub(e.msg, ModeNames[m]), "C15:error-names-supported-modes")),
          tag |-> "build-unsupported"]
    [] res.kind = "open" -> [why |-> <<>>, tag |-> "build-open"]
    [] res.kind = "code" ->
         [why |-> JudgeCode(res, e, "C15"),
          tag |-> IF res.key = OffKey THEN "build-off"
                  ELSE LET ch == Chain(cur, e.req)
                           pos == CHOOSE k \in 1..Len(ch) : ch[k] = res.key
                       IN (IF Len(res.key) >= 3 /\ SubSeq(res.key, 1, 3) = OnPrefix THEN "build-toggle-" ELSE "build-")
                          \o (IF Len(ch) = 3 THEN <<"exact-swing", "drop-swing", "drop-swing-fan">>[pos]
                              ELSE <<"exact", "drop-fan">>[pos])
                          \o (IF UsesTemp(e.req.mode) /\ Clamp(cur, e.req.temp) # e.req.temp THEN "-clamped" ELSE "")]

JudgeSwing(e) ==
  LET res == ResolveSwing(cur, e.swing) IN
  IF res.kind = "open" THEN [why |-> <<>>, tag |-> "swing-open"]
  ELSE [why |-> JudgeCode(res, e, "C15"), tag |-> "swing"]

Judge(e) ==
  CASE e.ev = "Load" -> JudgeLoad(e)
    [] e.ev = "Build" -> JudgeBuild(e)
    [] e.ev = "Swing" -> JudgeSwing(e)
    [] OTHER -> [why |-> <<"unknown-event">>, tag |-> "unknown"]

NoSet == [id |-> <<>>, onoff |-> 0, waves |-> <<>>]
Init == i = 1 /\ bad = <<>> /\ dropped = 0 /\ tags = <<>> /\ cur = NoSet
Next ==
  /\ i <= NEvents
  /\ LET e == Events[i] r == Judge(e) IN
       /\ bad' = IF r.why = <<>> THEN bad ELSE AddBad(bad, e, r.why)
       /\ dropped' = IF r.why = <<>> THEN dropped ELSE Dropped(bad, dropped)
       /\ tags' = Bump(tags, r.tag)
       /\ cur' = IF e.ev = "Load" THEN e.set ELSE cur
  /\ i' = i + 1
Spec == Init /\ [][Next]_<<i, bad, dropped, tags, cur>>
Done == i = NEvents + 1 => WriteVerdict(bad, dropped, tags)
=============================================================================
