SPECIFICATION Spec
CONSTANTS MaxOps = 2
          MaxClock = 0
          Small = TRUE
          Tiny = FALSE
INVARIANT FramesBound
INVARIANT FrameCount
INVARIANT BlockSizes
INVARIANT FreshSessions
INVARIANT EmptyLoginRaisesRuntime
INVARIANT StateQueryOutcome
INVARIANT NeverFalseSuccess
INVARIANT CanAlwaysFinish
PROPERTY NoLeak
PROPERTY AppendOnly
PROPERTY NoFrameAfterEmptyLogin
PROPERTY NoFrameForRejected
CHECK_DEADLOCK FALSE
