------------------------------ MODULE MC_NextRun ------------------------------
(* C13 on the model: all weekdays x all 128 day sets x a minute grid that      *)
(* includes equality and both neighbours.                                      *)
EXTENDS Schedule, TLC
CONSTANT Grid
QuickGrid == {0, 1, 719, 720, 721, 1438, 1439}
FullGrid == {0, 1, 2, 59, 60, 61, 599, 600, 601, 719, 720, 721, 779, 780, 781, 1379, 1380, 1381, 1437, 1438, 1439}
VARIABLES wd, D, now, start
Init == wd = -1 /\ D = {} /\ now = -1 /\ start = -1
Next == \/ wd = -1 /\ wd' \in WeekDays /\ UNCHANGED <<D, now, start>>
        \/ wd >= 0 /\ now = -1 /\ (\E d \in WeekDays : (\A x \in D : x < d) /\ D' = D \cup {d}) /\ UNCHANGED <<wd, now, start>>
        \/ wd >= 0 /\ now = -1 /\ now' \in Grid /\ UNCHANGED <<wd, D, start>>
        \/ now >= 0 /\ start = -1 /\ start' \in Grid /\ UNCHANGED <<wd, D, now>>
Spec == Init /\ [][Next]_<<wd, D, now, start>>
Ready == start >= 0
K == NextRunK(wd, now, start, D)
NamedDayIsSelected == Ready /\ D # {} => NextRunDay(wd, K) \in D
TodayRule == Ready => ((K = 0) <=> (D = {} \/ (wd \in D /\ start > now)))
TomorrowRule == Ready /\ D # {} => ((K = 1) <=> (~(wd \in D /\ start > now) /\ ((wd + 1) % 7) \in D))
WeekAheadRule == Ready /\ D # {} => ((K = 7) <=> (D = {wd} /\ start <= now))
Earliest == Ready /\ D # {} => \A j \in 0..(K - 1) : ~(((wd + j) % 7) \in D /\ (j > 0 \/ start > now))
Defined == Ready => K \in 0..7
=============================================================================
