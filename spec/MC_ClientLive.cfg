SPECIFICATION FairSpec
CONSTANTS MaxOps = 1
          MaxClock = 0
          Small = TRUE
          Tiny = FALSE
PROPERTY EveryCallReturns
CHECK_DEADLOCK FALSE
