SPECIFICATION Spec
CONSTANTS NPorts = 3
          MaxQueue = 2
          MaxSent = 4
INVARIANT RunningIffListening
INVARIANT NothingBoundWhenStopped
INVARIANT StopIdempotent
INVARIANT Restartable
INVARIANT CoreAgrees
INVARIANT DeliveryExact
INVARIANT NeverStuck
PROPERTY FailedStartClean
PROPERTY NoCallbackUnlessListening
PROPERTY NoCallbackAfterStop
PROPERTY ReleasedAfterCycle
CHECK_DEADLOCK FALSE
