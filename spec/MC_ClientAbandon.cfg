SPECIFICATION Spec
CONSTANTS MaxOps = 3
          AnswersLate = TRUE
INVARIANT SessionOfThisLogin
CHECK_DEADLOCK FALSE
