SPECIFICATION Spec
CONSTANTS MaxOps = 3
          AnswersLate = TRUE
          LibraryGivesUp = "never"
INVARIANT SessionOfThisLogin
CHECK_DEADLOCK FALSE
