----------------------------- MODULE Trace_Bridge -----------------------------
(***************************************************************************)
(* code -> spec for the UDP bridge (C05 C06 C07 C17).  Events:              *)
(*  Types  known: [code [2 bytes], name, cat]   the library's live type table*)
(*  New    ports                                 a SwitcherBridge was made   *)
(*  Start  how, ok        start() / entering the context returned or raised  *)
(*  Stop   how, raised    stop() / leaving the context                       *)
(*  Cycle                 the event loop has cycled                          *)
(*  Occupy p / Free p     a foreign socket takes / releases a port           *)
(*  Obs    running, listening [ports], bindable [ports]   what can be seen   *)
(*  Dgram  p, b, handed, cbraise, delivered [devices], warns, logs, excs     *)
(*         one datagram sent to port p and everything observed while it was  *)
(*         processed (handed = an endpoint of the bridge took it)            *)
(*  Stray  a callback invocation outside the processing of any datagram      *)
(***************************************************************************)
EXTENDS Datagram, Bridge, TraceKit

VARIABLES i, bad, dropped, tags, B, known, tid

Cl(c, name) == Clause(c, name)
SeqToSet(q) == {q[k] : k \in 1..Len(q)}
NoKnown == <<>>
KnownIdx(code) == {k \in 1..Len(known) : known[k].code = code}
Classify(b) ==
  IF ~Gate(b) THEN [cls |-> "foreign", fam |-> "?"]
  ELSE IF KnownIdx(CodeOf(b)) = {} THEN [cls |-> "unknown", fam |-> "?"]
  ELSE LET k == CHOOSE x \in KnownIdx(CodeOf(b)) : TRUE
           fam == CatFam(known[k].cat)
           ref == ModelOf(CodeOf(b))
       IN IF ref.fam = fam /\ ref.name = known[k].name /\ WellFormedFor(fam, b)
          THEN [cls |-> "valid", fam |-> fam] ELSE [cls |-> "other", fam |-> fam]

FieldClauses(fam, b, g) ==
  LET d == DecodeDevice(fam, b) IN
     Cl(g.cls = d.cls, "C05:device-class") \o Cl(g.type = d.type, "C05:device-type")
  \o Cl(g.id = d.id, "C05:device-id") \o Cl(g.key = d.key, "C05:login-key")
  \o Cl(g.ip = d.ip, "C05:ip-address") \o Cl(g.mac = d.mac, "C05:mac-address") \o Cl(g.name = d.name, "C05:name")
  \o (IF fam # "shutter" THEN Cl(g.state = d.state, "C05:state") ELSE <<>>)
  \o (IF fam \in {"heater", "plug"}
      THEN Cl(g.watts = d.watts, "C05:power") \o Cl(AmpsOk(d.watts, g.amps10), "C05:current") ELSE <<>>)
  \o (IF fam = "heater" THEN Cl(g.remaining = d.remaining, "C05:remaining-time") \o Cl(g.auto = d.auto, "C05:auto-shutdown") ELSE <<>>)
  \o (IF fam = "thermo"
      THEN Cl(g.mode = d.mode, "C05:mode") \o Cl(g.temp10 = d.temp10, "C05:temperature") \o Cl(g.target = d.target, "C05:target-temperature")
        \o Cl(g.fan = d.fan, "C05:fan-level") \o Cl(g.swing = d.swing, "C05:swing") \o Cl(g.remote = d.remote, "C05:remote-id")
      ELSE <<>>)
  \o (IF fam = "shutter" THEN Cl(g.position = d.position, "C05:position") \o Cl(g.direction = d.direction, "C05:direction") ELSE <<>>)

OnlyCallbackExc(e) == \A k \in 1..Len(e.excs) : e.cbraise /\ e.excs[k] = "CallbackBoom"

JudgeDgram(e) ==
  LET listening == e.p \in B.bound
      c == Classify(e.b)
      n == Len(e.delivered)
  IN IF e.handed # listening
     THEN [why |-> IF e.handed THEN <<"C17:listens-while-it-should-not">>
                   ELSE <<"C17:does-not-listen-while-running", "C07:later-deliveries-stopped">>, tag |-> "dgram-listening-mismatch"]
     ELSE IF ~e.handed
     THEN [why |-> Cl(n = 0, "C17:callback-while-not-listening"), tag |-> "dgram-nobody-listens"]
     ELSE CASE c.cls = "foreign" ->
                 [why |-> (IF n = 0 THEN <<>> ELSE <<"C06:foreign-datagram-delivered", "C07:callback-for-a-datagram-that-is-no-broadcast">>)
                          \o (IF e.burst THEN <<>> ELSE Cl(e.warns = 0 /\ e.logs = 0, "C06:foreign-datagram-not-silent")
                                                      \o Cl(e.excs = <<>>, "C06:foreign-datagram-raised")),
                  tag |-> IF Len(e.b) \in {159, 165, 168} THEN "dgram-foreign-right-length" ELSE IF Len(e.b) >= 2 /\ SubSeq(e.b, 1, 2) = <<254, 240>> THEN "dgram-foreign-right-magic" ELSE "dgram-foreign"]
            [] c.cls = "unknown" ->
                 [why |-> (IF n = 0 THEN <<>> ELSE <<"C06:unknown-model-delivered", "C07:callback-for-a-datagram-that-is-no-broadcast">>)
                          \o (IF e.burst THEN <<>> ELSE Cl(e.warns + e.logs >= 1, "C06:unknown-model-must-warn")
                                                      \o Cl(e.excs = <<>>, "C06:unknown-model-raised")),
                  tag |-> "dgram-unknown-model"]
            [] c.cls = "valid" ->
                 [why |-> Cl(n = 1 \/ (e.cut /\ n = 0), "C07:exactly-one-callback-per-valid-broadcast")
                          \o (IF n >= 1 THEN FieldClauses(c.fam, e.b, e.delivered[1]) ELSE <<>>)
                          \o (IF e.burst THEN <<>> ELSE Cl(OnlyCallbackExc(e), "C07:valid-broadcast-raised")
                                                      \o Cl(e.warns = 0, "C06:valid-broadcast-warned")),
                  tag |-> "dgram-valid-" \o c.fam \o (IF e.cbraise THEN "-callback-raises" ELSE "") \o (IF e.burst THEN "-in-burst" ELSE "")
                          \o (IF e.cut THEN "-cut-by-stop" ELSE "")]
            [] OTHER -> [why |-> <<>>, tag |-> "dgram-gate-pass-other-open"]

SetOf(q) == SeqToSet(q)
JudgeObs(e) ==
  [why |->   Cl(e.running = B.running, "C17:running-flag")
          \o Cl(SetOf(e.listening) = B.bound, "C17:listening-ports")
          \o Cl(\A p \in PortSet(B) : (p \in SetOf(e.bindable)) <=> Bindable(B, p), "C17:ports-released"),
   tag |-> IF B.running THEN "obs-running" ELSE IF B.closing # {} THEN "obs-closing" ELSE "obs-stopped"]

Step(e) ==
  CASE e.ev = "Types" -> [why |-> <<>>, tag |-> "types", B |-> B, known |-> e.known]
    [] e.ev = "New" -> [why |-> <<>>, tag |-> "new", B |-> NewBridge(e.ports), known |-> known]
    [] e.ev = "Start" ->
         [why |-> IF StartSucceeds(B) THEN Cl(e.ok, "C17:start-failed-although-ports-free") ELSE Cl(~e.ok, "C17:start-must-raise-when-a-port-is-taken"),
          tag |-> "start-" \o e.how \o (IF StartSucceeds(B) THEN "" ELSE IF B.running THEN "-while-running" ELSE "-port-taken"),
          B |-> AfterStart(B), known |-> known]
    [] e.ev = "Stop" ->
         [why |-> Cl(~e.raised, "C17:stop-raised"),
          tag |-> "stop-" \o e.how \o (IF B.running THEN "" ELSE "-while-stopped"), B |-> AfterStop(B), known |-> known]
    [] e.ev = "Cycle" -> [why |-> <<>>, tag |-> "cycle", B |-> AfterCycle(B), known |-> known]
    [] e.ev = "Occupy" -> [why |-> Cl(~Busy(B, e.p), "harness:occupy-busy-port"), tag |-> "occupy", B |-> [B EXCEPT !.occupied = @ \cup {e.p}], known |-> known]
    [] e.ev = "Free" -> [why |-> <<>>, tag |-> "free", B |-> [B EXCEPT !.occupied = @ \ {e.p}], known |-> known]
    [] e.ev = "Obs" -> JudgeObs(e) @@ [B |-> B, known |-> known]
    [] e.ev = "Dgram" -> JudgeDgram(e) @@ [B |-> B, known |-> known]
    [] e.ev = "Stray" -> [why |-> <<"C07:callback-outside-datagram-processing">>
                                  \o (IF B.running THEN <<>> ELSE <<"C17:callback-after-stop">>), tag |-> "stray", B |-> B, known |-> known]
    [] e.ev = "Order" -> \* tags of the deliveries of one burst on one port, in the order the callback saw them
         [why |-> Cl(\A k \in 1..(Len(e.seqs) - 1) : e.seqs[k] < e.seqs[k + 1], "C07:arrival-order-per-port"),
          tag |-> "order", B |-> B, known |-> known]
    [] OTHER -> [why |-> <<"unknown-event">>, tag |-> "unknown", B |-> B, known |-> known]

Init == i = 1 /\ bad = <<>> /\ dropped = 0 /\ tags = <<>> /\ B = NewBridge(<<>>) /\ known = NoKnown /\ tid = -1
Next ==
  /\ i <= NEvents
  /\ LET e == Events[i] r == Step(e) IN
       /\ bad' = IF r.why = <<>> THEN bad ELSE AddBad(bad, e, r.why)
       /\ dropped' = IF r.why = <<>> THEN dropped ELSE Dropped(bad, dropped)
       /\ tags' = Bump(tags, r.tag)
       /\ B' = r.B /\ known' = r.known /\ tid' = e.tid
  /\ i' = i + 1
vars == <<i, bad, dropped, tags, B, known, tid>>
Spec == Init /\ [][Next]_vars
Done == i = NEvents + 1 => WriteVerdict(bad, dropped, tags)
\* invariants of the life-cycle model along every recorded behaviour
RunningIffListening == B.running <=> (B.bound = PortSet(B) /\ (B.ports # <<>> \/ B.running))
=============================================================================
