----------------------------- MODULE Trace_Bridge -----------------------------
(***************************************************************************)
(* code -> spec for the UDP bridge (C05 C06 C07 C17).  Events:              *)
(*  Types  known: [code [2 bytes], name, cat]   the library's live type table*)
(*  New    ports                                 a SwitcherBridge was made   *)
(*  Start  how, ok        start() / entering the context returned or raised  *)
(*  Stop   how, raised    stop() / leaving the context                       *)
(*  Cycle                 the event loop has cycled                          *)
(*  Occupy p / Free p     a foreign socket takes / releases a port           *)
(*  Obs    running, listening [ports], bindable [ports]   what can be seen   *)
(*  Dgram  p, b, handed, cbraise, delivered [devices], warns, logs, excs     *)
(*         one datagram sent to port p and everything observed while it was  *)
(*         processed (handed = an endpoint of the bridge took it)            *)
(*  Stray  a callback invocation outside the processing of any datagram      *)
(***************************************************************************)
EXTENDS Datagram, Bridge, TraceKit

VARIABLES i, bad, dropped, tags, BB, occ, known, tid

Cl(c, name) == Clause(c, name)
NB == 2
Br(e) == IF "br" \in DOMAIN e THEN e.br ELSE 1
\* bridge k as it sees the world: ports of foreign sockets and of the OTHER bridge object are occupied for it
Eff(k) == [BB[k] EXCEPT !.occupied = occ \cup UNION {BB[j].bound \cup BB[j].closing : j \in (1..NB) \ {k}}]
\* scripts/discover_devices.py: the ports scanned for a protocol-type option (20002/10002 type 1, 20003/10003 type 2)
DiscoverPorts(t) == CASE t = "1" -> {20002, 10002} [] t = "2" -> {20003, 10003} [] OTHER -> {20002, 10002, 20003, 10003}
Owner(p) == {k \in 1..NB : p \in BB[k].bound}
SeqToSet(q) == {q[k] : k \in 1..Len(q)}
NoKnown == <<>>
KnownIdx(code) == {k \in 1..Len(known) : known[k].code = code}
Classify(b) ==
  IF ~Gate(b) THEN [cls |-> "foreign", fam |-> "?"]
  ELSE IF KnownIdx(CodeOf(b)) = {} THEN [cls |-> "unknown", fam |-> "?"]
  ELSE LET k == CHOOSE x \in KnownIdx(CodeOf(b)) : TRUE
           fam == CatFam(known[k].cat)
           ref == ModelOf(CodeOf(b))
       IN IF ref.fam = fam /\ ref.name = known[k].name /\ WellFormedFor(fam, b)
          THEN [cls |-> "valid", fam |-> fam]
          ELSE IF ref.fam = fam /\ ref.name = known[k].name /\ Tolerated(fam, b) THEN [cls |-> "tolerated", fam |-> fam]
          ELSE [cls |-> "other", fam |-> fam]

FieldClauses(fam, b, g) ==
  LET d == DecodeDevice(fam, b) IN
     Cl(g.cls = d.cls, "C05:device-class") \o Cl(g.type = d.type, "C05:device-type")
  \o Cl(g.id = d.id, "C05:device-id") \o Cl(g.key = d.key, "C05:login-key")
  \o Cl(g.ip = d.ip, "C05:ip-address") \o Cl(g.mac = d.mac, "C05:mac-address") \o Cl(g.name = d.name, "C05:name")
  \o (IF fam # "shutter" THEN Cl(g.state = d.state, "C05:state") ELSE <<>>)
  \o (IF fam \in {"heater", "plug"}
      THEN Cl(g.watts = d.watts, "C05:power") \o Cl(AmpsOk(d.watts, g.amps10), "C05:current") ELSE <<>>)
  \o (IF fam = "heater" THEN Cl(g.remaining = d.remaining, "C05:remaining-time") \o Cl(g.auto = d.auto, "C05:auto-shutdown") ELSE <<>>)
  \o (IF fam = "thermo"
      THEN Cl(g.mode = d.mode, "C05:mode") \o Cl(g.temp10 = d.temp10, "C05:temperature") \o Cl(g.target = d.target, "C05:target-temperature")
        \o Cl(g.fan = d.fan, "C05:fan-level") \o Cl(g.swing = d.swing, "C05:swing") \o Cl(g.remote = d.remote, "C05:remote-id")
      ELSE <<>>)
  \o (IF fam = "shutter" THEN Cl(g.position = d.position, "C05:position") \o Cl(g.direction = d.direction, "C05:direction") ELSE <<>>)

\* the only exception a valid broadcast may end with is the one the user's own callback raised (e.cbexc: its class)
OnlyCallbackExc(e) == \A k \in 1..Len(e.excs) : e.cbraise /\ (IF "cbexc" \in DOMAIN e THEN e.excs[k] = e.cbexc
                                                               ELSE e.excs[k] \in {"CallbackBoom", "CallbackBase", "CancelledError"})

JudgeDgram(e) ==
  LET listening == Owner(e.p) # {}
      c == Classify(e.b)
      n == Len(e.delivered)
      rightOwner == \A k \in 1..n : ("br" \notin DOMAIN e.delivered[k]) \/ e.delivered[k].br \in Owner(e.p)
  IN IF e.handed # listening
     THEN [why |-> IF e.handed THEN <<"C17:listens-while-it-should-not">>
                   ELSE <<"C17:does-not-listen-while-running", "C07:later-deliveries-stopped">>
                        \* a valid broadcast sent to a port of a running bridge reached no callback at all
                        \o (IF c.cls = "valid" THEN <<"C07:exactly-one-callback-per-valid-broadcast">> ELSE <<>>),
             tag |-> "dgram-listening-mismatch"]
     ELSE IF ~e.handed
     THEN [why |-> Cl(n = 0, "C17:callback-while-not-listening"), tag |-> "dgram-nobody-listens"]
     ELSE CASE c.cls = "foreign" ->
                 [why |-> (IF n = 0 THEN <<>> ELSE <<"C06:foreign-datagram-delivered", "C07:callback-for-a-datagram-that-is-no-broadcast">>)
                          \o (IF e.burst THEN <<>> ELSE Cl(e.warns = 0 /\ e.logs = 0, "C06:foreign-datagram-not-silent")
                                                      \o Cl(e.excs = <<>>, "C06:foreign-datagram-raised")),
                  tag |-> IF Len(e.b) \in {159, 165, 168} THEN "dgram-foreign-right-length" ELSE IF Len(e.b) >= 2 /\ SubSeq(e.b, 1, 2) = <<254, 240>> THEN "dgram-foreign-right-magic" ELSE "dgram-foreign"]
            [] c.cls = "unknown" ->
                 [why |-> (IF n = 0 THEN <<>> ELSE <<"C06:unknown-model-delivered", "C07:callback-for-a-datagram-that-is-no-broadcast">>)
                          \o (IF e.burst THEN <<>> ELSE Cl(e.warns + e.logs >= 1, "C06:unknown-model-must-warn")
                                                      \o Cl(e.excs = <<>>, "C06:unknown-model-raised")),
                  tag |-> "dgram-unknown-model"]
            [] c.cls = "valid" ->
                 [why |-> Cl(n = 1 \/ (e.cut /\ n = 0), "C07:exactly-one-callback-per-valid-broadcast")
                          \* "listens" means hears: a bridge that holds the port and hands nothing over is not listening (C17)
                          \o Cl(n >= 1 \/ e.cut, "C17:holds-the-port-but-does-not-hear")
                          \o Cl(rightOwner, "C07:delivered-to-the-listening-bridge")
                          \o (IF n >= 1 THEN FieldClauses(c.fam, e.b, e.delivered[1]) ELSE <<>>)
                          \* "... with the decoded device": whatever was delivered before, and whatever its receiver did with it
                          \o (IF n >= 1 /\ FieldClauses(c.fam, e.b, e.delivered[1]) # <<>> THEN <<"C07:delivered-device-is-not-the-decoded-one">> ELSE <<>>)
                          \o (IF e.burst THEN <<>> ELSE Cl(OnlyCallbackExc(e), "C07:valid-broadcast-raised")
                                                      \o Cl(e.warns = 0, "C06:valid-broadcast-warned")),
                  tag |-> "dgram-valid-" \o c.fam \o (IF e.cbraise THEN "-callback-raises" ELSE "") \o (IF e.burst THEN "-in-burst" ELSE "")
                          \o (IF e.cut THEN "-cut-by-stop" ELSE "")]
            [] c.cls = "tolerated" ->     \* an enumerated byte outside its domain in a field the decoder tolerates: still handed over, once
                 [why |-> Cl(n = 1 \/ (e.cut /\ n = 0), "C07:exactly-one-callback-per-valid-broadcast")
                          \o Cl(rightOwner, "C07:delivered-to-the-listening-bridge")
                          \o (IF n >= 1 THEN Cl(e.delivered[1].id = HexLower(Field(e.b, 18, 3)) /\ e.delivered[1].name = NameOf(e.b), "C05:name") ELSE <<>>),
                  tag |-> "dgram-tolerated-" \o c.fam]
            [] OTHER -> [why |-> <<>>, tag |-> "dgram-gate-pass-other-open"]

SetOf(q) == SeqToSet(q)
JudgeObs(e) ==
  LET B == Eff(Br(e)) IN
  [why |->   Cl(e.running = B.running, "C17:running-flag")
          \o Cl(SetOf(e.listening) = B.bound, "C17:listening-ports")
          \* a port the bridge has closed is promised to be free once the loop has cycled; it may be free earlier (a stop() that
          \* waits for its sockets to close), so while it is "being released" either observation is right
          \o Cl(\A p \in PortSet(B) \ (B.limbo \cup UNION {BB[j].closing : j \in 1..NB}) : (p \in SetOf(e.bindable)) <=> Bindable(B, p), "C17:ports-released"),
   tag |-> (IF B.running THEN "obs-running" ELSE IF B.closing # {} THEN "obs-closing" ELSE "obs-stopped") \o (IF Br(e) = 2 THEN "-second-bridge" ELSE "")]

Upd(k, B2) == [BB EXCEPT ![k] = [B2 EXCEPT !.occupied = {}]]
R(why, tag, bb, oc, kn) == [why |-> why, tag |-> tag, BB |-> bb, occ |-> oc, known |-> kn]
Step(e) ==
  LET k == Br(e) B == Eff(k) IN
  CASE e.ev = "Types" -> R(<<>>, "types", [j \in 1..NB |-> NewBridge(<<>>)], {}, e.known)
    [] e.ev = "New" -> R(<<>>, "new", Upd(k, NewBridge(e.ports)), occ, known)
    [] e.ev = "Start" ->
         \* start() on a bridge that is already running is outside the statement's alphabet: whether it raises (as the pinned
         \* commit does: its own sockets hold the ports) or returns quietly is left open - nothing may change either way
         R(IF StartSucceeds(B) THEN Cl(e.ok, "C17:start-failed-although-ports-free")
           ELSE IF B.running /\ B.bound = PortSet(B) THEN <<>>
           ELSE Cl(~e.ok, "C17:start-must-raise-when-a-port-is-taken"),
           "start-" \o e.how \o (IF StartSucceeds(B) THEN "" ELSE IF B.running THEN "-while-running"
                                  ELSE IF \E j \in 1..Len(B.ports) : ~ValidPort(B.ports[j]) THEN "-invalid-port" ELSE "-port-taken")
                    \o (IF k = 2 THEN "-second-bridge" ELSE ""),
           Upd(k, AfterStart(B)), occ, known)
    [] e.ev = "StartCancelled" ->     \* e.n = binds completed before the cancellation (observed), e.k = loop cycles the start was given
         R(Cl(e.n <= Len(B.ports), "harness:cancelled-start"), "start-cancelled", Upd(k, AfterCancelledStart(B, e.n)), occ, known)
    [] e.ev = "Stop" ->
         R(Cl(~e.raised, "C17:stop-raised"),
           "stop-" \o e.how \o (IF B.running THEN "" ELSE "-while-stopped") \o (IF k = 2 THEN "-second-bridge" ELSE ""), Upd(k, AfterStop(B)), occ, known)
    [] e.ev = "Cycle" -> R(<<>>, "cycle", [j \in 1..NB |-> AfterCycle(BB[j])], occ, known)
    [] e.ev = "Occupy" -> R(Cl(~Busy(B, e.p), "harness:occupy-busy-port"), "occupy", BB, occ \cup {e.p}, known)
    [] e.ev = "Free" -> R(<<>>, "free", BB, occ \ {e.p}, known)
    [] e.ev = "Discover" ->      \* beyond the listed statements: scripts/discover_devices.py run as a program
         LET want == DiscoverPorts(e.type)
             heard == SelectSeq(e.dgrams, LAMBDA g : g.p \in want /\ Classify(g.b).cls = "valid")
         IN R(   Cl(SeqToSet(e.bound) = want, "X05:ports-of-the-protocol-type")
              \o Cl(e.printed = [j \in 1..Len(heard) |-> HexLower(Field(heard[j].b, 18, 3))], "X05:prints-each-discovered-device-once")
              \o Cl(e.exc = "", "X05:script-raised") \o Cl(e.left = <<>>, "X05:ports-released-at-exit"),
              "discover-" \o (IF e.type = "" THEN "default" ELSE e.type), BB, occ, known)
    [] e.ev = "KeyScript" ->     \* beyond the listed statements: scripts/get_device_login_key.py run as a program
         \* it listens on the given port for two seconds; the first datagram FROM THE GIVEN ADDRESS that arrives in that time
         \* yields the login key (byte 40, two hex digits; nothing if the datagram is shorter); then, or after two seconds of
         \* nothing from that address, it closes its socket and ends
         LET inTime == SelectSeq(e.dgrams, LAMBDA g : g.at < 2000)
             mine == SelectSeq(inTime, LAMBDA g : g.src = e.ip)
             want == IF mine = <<>> THEN <<>> ELSE <<IF Len(mine[1].b) >= 41 THEN HexLower(Field(mine[1].b, 40, 1)) ELSE <<>>>>
         IN R(   Cl(e.bound = <<e.port>>, "X06:listens-on-the-given-port")
              \o Cl(e.printed = want, "X06:prints-the-key-of-the-first-datagram-from-the-device")
              \o Cl(e.stopped = (mine = <<>>), "X06:gives-up-after-two-seconds")
              \o Cl(mine # <<>> \/ e.waited \in 2000..2100, "X06:waits-two-seconds-for-the-device")
              \o Cl(e.closed, "X06:socket-closed-at-exit") \o Cl(e.exc = "", "X06:script-raised"),
              IF mine = <<>> THEN "keyscript-nothing-heard" ELSE IF Len(mine[1].b) < 41 THEN "keyscript-short-datagram" ELSE "keyscript-key", BB, occ, known)
    [] e.ev = "NetErr" -> R(Cl(~e.raised, "X02:error-report-raised"), IF e.handed THEN "net-error" ELSE "net-error-nobody-listens",
                            [j \in 1..NB |-> AfterNetError(BB[j])], occ, known)
    [] e.ev = "Obs" -> LET j == JudgeObs(e) IN R(j.why, j.tag, BB, occ, known)
    [] e.ev = "Dgram" -> LET j == JudgeDgram(e) IN R(j.why, j.tag, BB, occ, known)
    [] e.ev = "Stray" -> R(<<"C07:callback-outside-datagram-processing">> \o (IF \E j \in 1..NB : BB[j].running THEN <<>> ELSE <<"C17:callback-after-stop">>),
                           "stray", BB, occ, known)
    [] e.ev = "Order" -> R(Cl(\A q \in 1..(Len(e.seqs) - 1) : e.seqs[q] < e.seqs[q + 1], "C07:arrival-order-per-port"), "order", BB, occ, known)
    [] OTHER -> R(<<"unknown-event">>, "unknown", BB, occ, known)

Init == i = 1 /\ bad = <<>> /\ dropped = 0 /\ tags = <<>> /\ BB = [j \in 1..NB |-> NewBridge(<<>>)] /\ occ = {} /\ known = NoKnown /\ tid = -1
Next ==
  /\ i <= NEvents
  /\ LET e == Events[i] r == Step(e) IN
       /\ bad' = IF r.why = <<>> THEN bad ELSE AddBad(bad, e, r.why)
       /\ dropped' = IF r.why = <<>> THEN dropped ELSE Dropped(bad, dropped)
       /\ tags' = Bump(tags, r.tag)
       /\ BB' = r.BB /\ occ' = r.occ /\ known' = r.known /\ tid' = e.tid
  /\ i' = i + 1
vars == <<i, bad, dropped, tags, BB, occ, known, tid>>
Spec == Init /\ [][Next]_vars
Done == i = NEvents + 1 => WriteVerdict(bad, dropped, tags)
=============================================================================
