SPECIFICATION Spec
CONSTANTS Timers = {0, 1, 2}
          AutoOffs = {3600, 3719}
          Step = 1800
          MaxAir = 2
          Fam = "plug"
INVARIANT TypeOK
INVARIANT PowerAndTimerAgree
INVARIANT ReportedNormalised
INVARIANT SeesTheCommand
INVARIANT ViewsAgreeAlways
INVARIANT ReadSeesTheCommand
PROPERTY QueriesAreReadOnly
PROPERTY TimeMovesOnlyTimers
PROPERTY NoDeliveryWhileStopped
PROPERTY TimerCountsDown
PROPERTY OnlyCommandsAndTimeChangeTheDevice
CONSTRAINT ShortOn
CHECK_DEADLOCK FALSE
