----------------------------- MODULE Trace_Client -----------------------------
(***************************************************************************)
(* code -> spec for the TCP client (C01 C02 C03 C08 C09 C10 C16 C18).      *)
(* Events (c = instance number 1..MaxC inside the scenario):               *)
(*  Open    c, api (1|2), dev [3 bytes], key [1 byte]   new API object     *)
(*  Connect c, ok, flag          connect() returned (ok) or raised; flag = *)
(*                               `connected` afterwards                    *)
(*  Disc    c, how, raised, flag, eof   disconnect()/leaving the context;  *)
(*                               eof = the device saw end-of-stream        *)
(*  Flag    c, flag              observation of `connected`                *)
(*  Call    c, op, a {...}, clk [hi, lo]  (floor of the clock, limbs)      *)
(*  Write   c, b [bytes], clk [hi, lo]    (ceiling of the clock, limbs)    *)
(*  Reply   c, b [bytes]         what the device answered ([] = end of     *)
(*                               stream), src "script" | "device"          *)
(*  Ret     c, out (return|runtime|raise|cancelled), exc, ok, r {...}      *)
(* A new tid resets all instances.                                         *)
(***************************************************************************)
EXTENDS Client, TraceKit

MaxC == 3
VARIABLES i, bad, dropped, tags, st, raw, slots, ask, listed, tid

\* raw[c]: bytes of the last reply (for field comparison); slots[c]: what the device model stores (C10)
Blanked == Idle(1, Zeros(3), Zeros(1))
Cl(c, name) == Clause(c, name)

---------------------------------------------------------------------------
(* arguments -> accepted / rejected / open, and the command frame           *)
ClockClass(t) == IF StrictClock(t) THEN "strict" ELSE IF LenientClock(t) THEN "lenient" ELSE "bad"
SeqToSet(q) == {q[k] : k \in 1..Len(q)}
NoDup(q) == Cardinality(SeqToSet(q)) = Len(q)
Cands(a, t) == {LE32(x) : x \in ClockCandidates(a.zone, a.now, ClockHH(t), ClockMM(t))}

CallInfo(e) ==
  LET a == e.a IN
  CASE e.op = "control_device" ->
         LET tf == IF a.big THEN <<>> ELSE TimerField(a.minutes) IN
         [arg |-> IF tf = <<>> THEN "reject" ELSE IF a.minutes < 0 THEN "open" ELSE "ok",
          cmd |-> [kind |-> "control", on |-> a.on, timer |-> tf]]
    [] e.op = "set_auto_shutdown" ->
         [arg |-> IF AutoOffAccepted(a.secs) THEN "ok" ELSE "reject",
          cmd |-> [kind |-> "autooff", secs |-> AutoOffField(a.secs)]]
    [] e.op = "set_device_name" ->
         [arg |-> IF NameAccepted(a.cps) THEN "ok" ELSE "reject",
          cmd |-> [kind |-> "setname", name |-> IF NameAccepted(a.cps) THEN NameField(a.cps) ELSE Zeros(32)]]
    [] e.op = "get_schedules" -> [arg |-> "ok", cmd |-> [kind |-> "getschedules", base |-> IF "base" \in DOMAIN a THEN a.base ELSE <<0, 0>>]]
    [] e.op = "delete_schedule" ->
         [arg |-> IF SlotAccepted(a.slot) THEN "ok" ELSE "open", cmd |-> [kind |-> "delschedule", slot |-> a.slot]]
    [] e.op = "create_schedule" ->
         LET cs == ClockClass(a.start) ce == ClockClass(a.end) IN
         IF cs = "bad" \/ ce = "bad" \/ ~NoDup(a.days) THEN [arg |-> "reject", cmd |-> NoCmd]
         ELSE IF cs = "lenient" \/ ce = "lenient" THEN [arg |-> "open", cmd |-> NoCmd]
         ELSE IF Cands(a, a.start) = {} \/ Cands(a, a.end) = {} THEN [arg |-> "open", cmd |-> NoCmd]
         ELSE [arg |-> "ok",
               cmd |-> [kind |-> "createschedule", mask |-> DayMask(SeqToSet(a.days)),
                        start |-> Cands(a, a.start), end |-> Cands(a, a.end),       \* sets: any candidate is right
                        zone |-> a.zone, startText |-> a.start, endText |-> a.end]]
    [] e.op = "stop" -> [arg |-> "ok", cmd |-> [kind |-> "runnerstop"]]
    [] e.op = "set_position" ->
         [arg |-> IF PositionAccepted(a.pos) THEN "ok" ELSE "open", cmd |-> [kind |-> "runnerpos", pos |-> a.pos]]
    [] OTHER -> [arg |-> "ok", cmd |-> NoCmd]

\* beyond the listed statements: scripts/control_device.py - which client class, operation and arguments a command line means
\* (control_thermostat is left out: it needs the bundled IR database, an empty file at the pinned commit)
CliPlan(e) ==
  LET o == e.o IN
  CASE e.action = "get_state" -> [api |-> 1, op |-> "get_state", a |-> [none |-> 0]]
    [] e.action = "turn_on" -> [api |-> 1, op |-> "control_device", a |-> [on |-> 1, minutes |-> o.timer, big |-> FALSE]]
    [] e.action = "turn_off" -> [api |-> 1, op |-> "control_device", a |-> [on |-> 0, minutes |-> 0, big |-> FALSE]]
    [] e.action = "set_name" -> [api |-> 1, op |-> "set_device_name", a |-> [cps |-> o.name]]
    [] e.action = "set_auto_shutdown" -> [api |-> 1, op |-> "set_auto_shutdown", a |-> [secs |-> 3600 * o.hours + 60 * o.minutes]]
    [] e.action = "get_schedules" -> [api |-> 1, op |-> "get_schedules", a |-> [zone |-> o.zone]]
    [] e.action = "delete_schedule" -> [api |-> 1, op |-> "delete_schedule", a |-> [slot |-> o.slot]]
    [] e.action = "create_schedule" ->
         [api |-> 1, op |-> "create_schedule", a |-> [start |-> o.start, end |-> o.end, days |-> o.days, zone |-> o.zone, now |-> o.now]]
    [] e.action = "stop_shutter" -> [api |-> 2, op |-> "stop", a |-> [none |-> 0]]
    [] e.action = "set_shutter_position" -> [api |-> 2, op |-> "set_position", a |-> [pos |-> o.pos]]
    [] e.action = "get_thermostat_state" -> [api |-> 2, op |-> "get_breeze_state", a |-> [none |-> 0]]
ControlPort(api) == IF api = 1 THEN 9957 ELSE 10000

BreezeArgs(e) ==
  IF e.op = "control_breeze_device"
  THEN [set |-> e.a.set, state |-> e.a.state, mode |-> e.a.mode, temp |-> e.a.temp, fan |-> e.a.fan, swing |-> e.a.swing, update |-> e.a.update]
  ELSE NoBreeze

---------------------------------------------------------------------------
(* judging a written frame                                                  *)
C01Clauses(b) ==
     Cl(HasMagic(b), "C01:magic")
  \o Cl(LengthOk(b), "C01:length-field")
  \o Cl(TerminatorOk(b), "C01:header-terminator")
  \o Cl(SignatureOk(b), "C01:signature")

\* the schedule record may carry either candidate instant of a repeated hour
\* "today" is the local date at some instant of the call: the one at which it began or any one up to the write (a call
\* that is under way at local midnight may stamp the schedule with either date)
Concrete(cmd, b, clk) ==
  IF cmd.kind # "createschedule" THEN cmd
  ELSE LET d == DecodeFrame(b)
           late(t) == IF clk[1] < 32768
                      THEN {LE32(x) : x \in ClockCandidates(cmd.zone, 65536 * clk[1] + clk[2], ClockHH(t), ClockMM(t))} ELSE {}
           pick(S, got) == IF got \in S THEN got ELSE CHOOSE x \in S : TRUE
           core == [kind |-> cmd.kind, mask |-> cmd.mask, start |-> cmd.start, end |-> cmd.end]
       IN IF d.kind = "createschedule"
          THEN [core EXCEPT !.start = pick(cmd.start \cup late(cmd.startText), d.start), !.end = pick(cmd.end \cup late(cmd.endText), d.end)]
          ELSE [core EXCEPT !.start = CHOOSE x \in cmd.start : TRUE, !.end = CHOOSE x \in cmd.end : TRUE]

FrameClauses(s, cmd0, why, b, clk) ==
  LET cmd == Concrete(cmd0, b, clk)
      ts == IF Len(b) >= 28 THEN TsOf(b) ELSE Zeros(4)
      want == Frame(WithCtx(s, cmd, ts))
      login == cmd.kind \in LoginKinds
      breeze == s.op = "control_breeze_device" /\ ~login
      sameHeader == Len(b) >= 40 /\ SubSeq(Blank(b), 1, 40) = SubSeq(Blank(want), 1, 40)
      sameBody == Len(b) = Len(want) /\ Len(b) >= 44 /\ SubSeq(Blank(b), 41, Len(b)) = SubSeq(Blank(want), 41, Len(want))
      wantSess == IF login THEN NoSession ELSE s.L.sess
  IN   (IF login \/ s.L.carried THEN C01Clauses(b) ELSE <<>>)
    \o (IF breeze
        THEN Cl(sameHeader /\ sameBody, "C16:" \o why)
        ELSE Cl(sameHeader, "C02:frame-header") \o Cl(sameBody, "C02:frame-body")
          \o Cl(sameHeader /\ Len(b) = Len(want), "C03:frame-kind"))
    \o Cl(Len(b) >= 12 /\ SessOf(b) = wantSess, IF login THEN "C03:login-carries-no-session" ELSE "C03:session-of-this-login")
    \o Cl(Len(b) >= 28 /\ LimbLeq(s.clk0, Limbs(ts)) /\ LimbLeq(Limbs(ts), clk), "C03:timestamp-current")
    \o (IF cmd.kind = "login1"
        THEN Cl(Len(b) >= 41 /\ SubSeq(b, 41, 41) = s.key, "C03:login-key")
        ELSE Cl(Len(b) >= 43 /\ SubSeq(b, 41, 43) = s.dev, "C03:device-id"))

ListBase(s) == IF s.cmd.kind = "getschedules" /\ "base" \in DOMAIN s.cmd THEN s.cmd.base ELSE <<0, 0>>
---------------------------------------------------------------------------
(* reply summaries                                                          *)
Summary(s, b) ==
  LET wfT == WellFormedThermo(b)
      needThermo == s.op = "get_breeze_state" \/ (s.op = "control_breeze_device" /\ s.pc = "waitcmd" /\ s.n = 1 /\ MainRequested(s))
  IN [empty |-> b = <<>>,
      carried |-> SessionCarried(b),
      sess |-> IF SessionCarried(b) THEN SessionOf(b) ELSE Zeros(4),
      wf |-> IF s.pc = "waitlogin" THEN FALSE
             ELSE CASE s.op = "get_state" -> WellFormedState1(b)
                    [] s.op = "get_shutter_state" -> WellFormedShutter(b)
                    [] s.op = "get_schedules" -> WholeRecords(b) /\ \A k \in 1..NRecords(b) : RecordInDomainRel(RecordAt(b, k), ListBase(s))
                    [] needThermo -> wfT
                    [] OTHER -> FALSE,
      th |-> IF needThermo /\ s.pc = "waitcmd" /\ wfT THEN DecodeThermo(b) ELSE NoThermo]

---------------------------------------------------------------------------
(* returned values                                                          *)
State1Clauses(r, b) ==
  LET d == DecodeState1(b) IN
     Cl(r.state = d.state, "C08:state") \o Cl(r.watts = d.watts, "C08:power")
  \o Cl(AmpsOk(d.watts, r.amps10), "C08:current") \o Cl(r.left = d.left, "C08:time-left")
  \o Cl(r.on = d.on, "C08:time-on") \o Cl(r.auto = d.auto, "C08:auto-shutdown")
ThermoClauses(r, b) ==
  LET d == DecodeThermo(b) IN
     Cl(r.state = d.state, "C08:thermostat-state") \o Cl(r.mode = d.mode, "C08:thermostat-mode")
  \o Cl(r.fan = d.fan, "C08:fan-level") \o Cl(r.swing = d.swing, "C08:swing")
  \o Cl(r.temp10 = d.temp10, "C08:temperature") \o Cl(r.target = d.target, "C08:target-temperature")
  \o Cl(r.remote = d.remote, "C08:remote-id")
ShutterClauses(r, b) ==
  LET d == DecodeShutter(b) IN Cl(r.position = d.position, "C08:position") \o Cl(r.direction = d.direction, "C08:direction")

DisplayFits(zone, now, g) ==
  LET hm == ParseClock(g.start)
      D == SeqToSet(g.days)
      wd == Weekday(zone, now)
      k == NextRunK(wd, LocalMin(zone, now), 60 * hm[1] + hm[2], D)
  IN hm # <<>> /\ DayTerm(g.display) = (IF k = 0 THEN <<0>> ELSE IF k = 1 THEN <<1>> ELSE <<2, NextRunDay(wd, k)>>)
\* listing: one schedule per distinct slot id, each equal to the meaning of a record with that id
\* (r.base: the listing was taken after 2038 - instants, zone rules and `now` are counted from that base, Schedule!Rel)
SchedClauses(r, b, zone) ==
  LET n == NRecords(b)
      recs == [k \in 1..n |-> RecordAt(b, k)]
      ids == {RecId(recs[k]) : k \in 1..n}
      got == r.scheds
      idOf(g) == g.id
      base == IF "base" \in DOMAIN r THEN r.base ELSE <<0, 0>>
      fits(g, rec) == LET m == RecordMeaningRel(zone, rec, base) IN
                        /\ g.id = m.id /\ g.recurring = m.recurring /\ SeqToSet(g.days) = m.days /\ NoDup(g.days)
                        /\ g.start = m.start /\ g.end = m.end /\ g.duration = m.duration
  IN IF ~(WholeRecords(b) /\ \A k \in 1..n : RecordInDomainRel(recs[k], base)) THEN <<>>     \* outside the statement's domain
     ELSE Cl(Len(got) = Cardinality(ids), "C10:one-schedule-per-slot-id")
       \o Cl(\A k \in 1..Len(got) : \E j \in 1..n : fits(got[k], recs[j]), "C10:schedule-fields")
       \o Cl(\A x \in ids : \E k \in 1..Len(got) : got[k].id = Decimal(x), "C10:every-slot-listed")
       \* beyond the listed statements: the display text of a listed schedule is the next-run text of its start and days
       \o (IF "now" \in DOMAIN r
           THEN Cl(\A k \in 1..Len(got) : DisplayFits(zone, r.now, got[k]), "X03:display-is-the-next-run-text")
           ELSE <<>>)

\* C09: "returns a parsed response" - whatever a state query returns was parsed from THIS reply: the reply is at least long
\* enough to hold the first fields and those fields are the reply's (a response remembered from an earlier exchange is not)
ParsedFromThisReply(s, r, b) ==
  CASE s.op = "get_state" -> Len(b) >= 76 /\ r.state = At(b, 75)
    [] s.op = "get_breeze_state" -> Len(b) >= 81 /\ r.target = At(b, 80)
    [] s.op = "get_shutter_state" -> Len(b) >= 80 /\ r.position = At(b, 76) /\ r.direction = Field(b, 78, 2)
    [] OTHER -> TRUE

ReturnClauses(s, e, b) ==
  IF e.out # "return" THEN <<>>
  ELSE CASE s.op = "get_state" /\ WellFormedState1(b) -> State1Clauses(e.r, b)
         [] s.op = "get_breeze_state" /\ WellFormedThermo(b) -> ThermoClauses(e.r, b)
         [] s.op = "get_shutter_state" /\ WellFormedShutter(b) -> ShutterClauses(e.r, b)
         [] s.op \in StateQueries -> Cl(ParsedFromThisReply(s, e.r, b), "C09:returned-response-not-parsed-from-this-reply")
         [] s.op = "get_schedules" /\ s.L.carried -> SchedClauses(e.r, b, e.r.zone)
         [] OTHER -> <<>>

---------------------------------------------------------------------------
(* the device model behind C10: acknowledged create frames are stored and a  *)
(* reply with src = "device" must list exactly what is stored                *)
NoAsk == [known |-> FALSE, start |-> <<>>, end |-> <<>>, days |-> {}]
\* the device keeps its schedules in slots 0..7: a create frame takes the lowest free slot, a delete frame empties the slot it
\* names, a listing shows the occupied slots in slot order.  sl: the occupied slots in slot order, [id, bytes, ask]
SlotIds(sl) == {sl[k].id : k \in 1..Len(sl)}
FreeId(sl) == CHOOSE q \in 0..Len(sl) : q \notin SlotIds(sl) /\ \A j \in 0..(q - 1) : j \in SlotIds(sl)
StoreIfCreate(sl, b, asked) ==
  LET d == DecodeFrame(b) IN
  IF d.kind = "createschedule"
  THEN LET new == [id |-> FreeId(sl), bytes |-> <<d.mask>> \o d.start \o d.end, ask |-> asked] IN
       SelectSeq(sl, LAMBDA x : x.id < new.id) \o <<new>> \o SelectSeq(sl, LAMBDA x : x.id > new.id)
  ELSE IF d.kind = "delschedule" THEN SelectSeq(sl, LAMBDA x : x.id # d.slot)
  ELSE sl
\* what the caller of create_schedule asked for (only for accepted, strictly spelled arguments)
AskOf(s, a) == IF s.op = "create_schedule" /\ s.arg = "ok"
               THEN [known |-> TRUE, start |-> a.start, end |-> a.end, days |-> SeqToSet(a.days)] ELSE NoAsk
ListingClauses(sl, b) ==
  LET n == NRecords(b) IN
     Cl(WholeRecords(b) /\ n = Len(sl), "harness:device-lists-its-slots")
  \o (IF WholeRecords(b) /\ n = Len(sl)
      THEN Cl(\A k \in 1..n : LET rec == RecordAt(b, k) IN
                 <<RecMask(rec)>> \o RecStart4(rec) \o RecEnd4(rec) = sl[k].bytes /\ RecId(rec) = sl[k].id, "harness:device-lists-its-slots")
      ELSE <<>>)

---------------------------------------------------------------------------
(* one event                                                                 *)
Res(why, tag, s2, raw2, sl2) == [why |-> why, tag |-> tag, s |-> s2, raw |-> raw2, sl |-> sl2]

\* C10 round trip: every slot created through create_schedule reads back as what its caller asked for
ReadBackClauses(sl, r) ==
  Cl(\A k \in 1..Len(sl) : sl[k].ask.known =>
        \E j \in 1..Len(r.scheds) :
           LET g == r.scheds[j] IN
             /\ g.id = Decimal(sl[k].id) /\ g.start = sl[k].ask.start /\ g.end = sl[k].ask.end
             /\ SeqToSet(g.days) = sl[k].ask.days /\ (g.recurring <=> sl[k].ask.days # {}),
     "C10:created-schedule-reads-back")
  \* ... and a slot emptied by delete_schedule is gone from the listing
  \o Cl(\A j \in 1..Len(r.scheds) : \E k \in 1..Len(sl) : r.scheds[j].id = Decimal(sl[k].id), "C10:deleted-schedule-still-listed")

Step(e, s, rw, sl, ak, ls) ==
  CASE e.ev = "Open" -> Res(<<>>, "open", Idle(e.api, e.dev, e.key), <<>>, <<>>)
    [] e.ev = "Connect" ->
         Res(   Cl(s.conn = "limbo" \/ e.flag = (e.ok \/ s.conn = "open"), "C18:connected-after-connect")      \* a refused retry on a connected client changes nothing
             \o Cl(e.ok \/ s.conn \in {"open", "limbo"} \/ ~e.flag, "C18:refused-connect-leaves-disconnected")
             \* a connect that succeeds on a client that is not connected has opened a connection to the device
             \o Cl(~e.ok \/ s.conn = "open" \/ ~("newconn" \in DOMAIN e) \/ e.newconn, "C18:connect-opened-no-connection")
             \* ... and a client that is not connected can always connect to a device that listens on its control port
             \* (MC_ClientLife!ReconnectPossible): whatever was refused or reset before leaves nothing behind that prevents it
             \o Cl(~("listening" \in DOMAIN e) \/ ~e.listening \/ e.ok \/ s.conn = "open", "C18:connect-failed-although-the-device-listens"),
             IF e.ok THEN "connect" ELSE IF s.conn = "open" THEN "connect-refused-while-connected" ELSE "connect-refused",
             [s EXCEPT !.conn = IF e.ok THEN "open" ELSE IF @ = "open" THEN "open" ELSE @], rw, sl)
    [] e.ev = "Disc" ->
         \* disconnecting a session the DEVICE has reset is outside the statement (the socket is gone already; the unchanged
         \* library raises from wait_closed() and keeps the flag): nothing is judged there, and `connected` is open afterwards
         IF s.conn = "reset"
         THEN Res(<<>>, "disc-" \o e.how \o "-after-reset", [s EXCEPT !.conn = "limbo", !.pc = "idle", !.op = "none"], rw, sl)
         ELSE
         Res(   Cl(~e.raised, "C18:disconnect-raised")
             \o Cl(s.conn = "limbo" \/ ~e.flag, "C18:connected-after-disconnect")
             \o Cl(s.conn # "open" \/ e.eof, "C18:device-sees-end-of-stream"),
             "disc-" \o e.how \o (IF s.conn = "open" THEN "" ELSE "-while-not-connected"),
             [s EXCEPT !.conn = IF @ = "open" THEN "closed" ELSE @, !.pc = "idle", !.op = "none"], rw, sl)
    [] e.ev = "Reset" ->      \* the device resets the session in the middle of an operation: how the operation ends is open
         \* ... for the caller.  A library that starts the operation over on a connection of its own (nothing forbids it) is
         \* held to the same call: the operation is back at its login step, and every frame must again be the caller's
         Res(<<>>, "device-resets-the-session",
             IF s.pc \in {"waitlogin", "waitcmd", "cmd"} /\ s.op # "none"
             THEN [BeginCall(s, s.op, s.arg, s.cmd, s.b, s.clk0) EXCEPT !.conn = "reset"]
             ELSE [s EXCEPT !.conn = "reset", !.pc = "idle", !.op = "none"], rw, sl)
    [] e.ev = "Flag" ->
         Res(   Cl(s.conn = "limbo" \/ e.flag = (s.conn \in {"open", "reset"}), "C18:connected-iff-open")
             \* ... and while it is connected the client has not closed its socket behind the caller's back
             \o Cl(s.conn # "open" \/ ~("eofnow" \in DOMAIN e) \/ ~e.eofnow, "C18:socket-closed-while-connected"),
             "flag", s, rw, sl)
    [] e.ev = "Call" ->
         LET ci == IF Supported(s.api, e.op) THEN CallInfo(e) ELSE [arg |-> "unsupported", cmd |-> NoCmd] IN
         Res(Cl(s.pc = "idle", "harness:call-while-busy"), "call-" \o e.op \o "-" \o ci.arg,
             BeginCall(s, e.op, ci.arg, ci.cmd, IF ci.arg = "unsupported" THEN NoBreeze ELSE BreezeArgs(e), e.clk), rw, sl)
    [] e.ev = "Cli" ->         \* a command line was started and has connected to e.host : e.port
         LET pl == CliPlan(e)
             call == [op |-> pl.op, a |-> pl.a]
             ci == CallInfo(call)
         IN Res(   Cl(e.port = ControlPort(pl.api), "X04:control-port-of-the-device-type")
                \o Cl(e.host = e.o.ip, "X04:address-given-on-the-command-line"),
                "cli-" \o e.action \o "-" \o ci.arg,
                BeginCall([Idle(pl.api, e.o.dev, IF "key" \in DOMAIN e.o THEN e.o.key ELSE <<0>>) EXCEPT !.conn = "open"], pl.op, ci.arg, ci.cmd, NoBreeze, e.clk), <<>>, <<>>)
    [] e.ev = "Write" ->
         IF s.pc = "login" /\ s.arg = "unsupported"
         THEN Res(<<"X01:frame-for-unsupported-operation">>, "write-unsupported", [OnWrite(s) EXCEPT !.free = TRUE], rw, sl)
         ELSE IF s.pc = "login"
         THEN Res(FrameClauses(s, LoginCmd(s), "login", e.b, e.clk), "write-login", OnWrite(s), rw, sl)
         ELSE IF s.pc = "cmd"
         THEN LET ex == Expect(s) IN
              (CASE ex.must = "write" ->
                     Res(FrameClauses(s, ex.want, ex.why, e.b, e.clk), "write-" \o ex.want.kind \o "-" \o ex.why, OnWrite(s), rw,
                         StoreIfCreate(sl, e.b, ak))
                [] ex.must = "open" ->
                     Res(IF s.L.carried THEN C01Clauses(e.b) ELSE <<>>, "write-open-" \o ex.why, OnWrite(s), rw, StoreIfCreate(sl, e.b, NoAsk))
                [] ex.must = "finish" ->
                     \* a frame nobody should have written is still a byte string on the wire: it must at least be well-formed (C01)
                     Res(UnexpectedWriteClauses(s) \o (IF s.L.carried THEN C01Clauses(e.b) ELSE <<>>),
                         "write-unexpected-" \o ex.why, [OnWrite(s) EXCEPT !.free = TRUE], rw, sl))
         ELSE Res(<<"C03:frame-without-waiting-for-the-reply">>, "write-out-of-turn", s, rw, sl)
    [] e.ev = "Reply" ->
         IF s.pc \in {"waitlogin", "waitcmd"}
         THEN Res(IF e.src = "device" THEN ListingClauses(sl, e.b) ELSE <<>>,
                  (IF s.pc = "waitlogin" THEN "reply-login-" ELSE "reply-cmd-")
                    \o (IF e.b = <<>> THEN "empty" ELSE IF s.pc = "waitlogin" /\ ~SessionCarried(e.b) THEN "short"
                        ELSE IF Summary(s, e.b).wf THEN "wellformed" ELSE "other"),
                  OnReply(s, Summary(s, e.b)), e.b, sl)
         ELSE Res(<<"harness:reply-out-of-turn">>, "reply-out-of-turn", s, rw, sl)
    [] e.ev = "Ret" ->
         LET o == [out |-> e.out, ok |-> e.ok] IN
         IF s.pc = "cmd" /\ e.out = "cancelled"
         THEN Res(<<>>, "ret-cancelled-cmd", OnRet(s), rw, sl)   \* the caller gave up between two steps of the call (its patience is its own business)
         ELSE IF s.pc = "cmd"
         THEN Res(FinishClauses(s, o) \o (IF s.free \/ "cli" \in DOMAIN e THEN <<>> ELSE ReturnClauses(s, e, rw))
                  \o (IF s.op = "get_schedules" /\ ls /\ e.out = "return" /\ ~s.free THEN ReadBackClauses(sl, e.r) ELSE <<>>),
                  "ret-" \o e.out \o "-" \o Expect(s).must \o "-" \o Expect(s).why, OnRet(s), rw, sl)
         ELSE IF s.pc = "login" /\ s.arg = "unsupported"
         THEN Res(Cl(e.exc = "NotImplementedError", "X01:unsupported-operation-must-raise-notimplementederror"),
                  "ret-unsupported", OnRet(s), rw, sl)
         ELSE IF s.pc = "login" /\ s.conn = "reset" /\ e.out # "return"
         THEN Res(<<>>, "ret-after-reset", OnRet(s), rw, sl)        \* the operation simply failed when the device reset the session
         ELSE IF s.pc = "login"
         THEN Res(Cl(e.out # "return" /\ s.arg # "ok", "C03:call-ended-before-login"), "ret-before-login", OnRet(s), rw, sl)
         ELSE IF e.out = "cancelled" /\ s.pc \in {"waitlogin", "waitcmd"}
         THEN Res(<<>>, "ret-cancelled-" \o s.pc, OnRet(s), rw, sl)      \* the caller gave up while waiting; the device never answers that frame
         ELSE IF e.out = "return"
         THEN Res(<<"C03:call-ended-while-a-reply-was-pending">>, "ret-out-of-turn", OnRet(s), rw, sl)
         \* the library itself gave up on a device that had not answered yet (a timeout of its own): no statement forbids that,
         \* except that a state query ends in RuntimeError or not at all (C09).  What it must not do is carry on as if the
         \* answer were not still to come: the late answer (event Late) then meets the next exchange on this connection, and
         \* the frame written on the strength of it is a frame written before its own reply came (C03, at that Write).
         ELSE Res(IF s.op \in StateQueries /\ e.out = "raise" THEN <<"C09:state-query-raised-other-exception">> ELSE <<>>,
                  "ret-library-gave-up-" \o s.pc, OnRet(s), rw, sl)
    [] e.ev = "Late" -> Res(<<>>, "late-answer-to-an-abandoned-frame", s, rw, sl)
    [] OTHER -> Res(<<"unknown-event">>, "unknown", s, rw, sl)

FrameCountOk(s) == s.op # "none" => s.n <= MaxCmdFrames(s.op)
Fresh == [c \in 1..MaxC |-> Blanked]
Empty3 == [c \in 1..MaxC |-> <<>>]
Init == i = 1 /\ bad = <<>> /\ dropped = 0 /\ tags = <<>> /\ st = Fresh
        /\ raw = Empty3 /\ slots = Empty3 /\ ask = [c \in 1..MaxC |-> NoAsk] /\ listed = [c \in 1..MaxC |-> FALSE] /\ tid = -1
Next ==
  /\ i <= NEvents
  /\ LET e == Events[i]
         new == e.tid # tid
         s0 == IF new THEN Blanked ELSE st[e.c]
         r0 == IF new THEN <<>> ELSE raw[e.c]
         l0 == IF new THEN <<>> ELSE slots[e.c]
         a0 == IF new THEN NoAsk ELSE ask[e.c]
         d0 == IF new THEN FALSE ELSE listed[e.c]
         r1 == Step(e, s0, r0, l0, a0, d0)
         \* the client model's invariant, evaluated in every state of every recorded behaviour; a violation is a verdict like
         \* any other (a hard INVARIANT would stop TLC and leave the rest of the recording unexamined)
         r == [r1 EXCEPT !.why = @ \o (IF FrameCountOk(r1.s) THEN <<>> ELSE <<"C03:invariant-frame-count-bounded">>)]
     IN /\ bad' = IF r.why = <<>> THEN bad ELSE AddBad(bad, e, r.why)
        /\ dropped' = IF r.why = <<>> THEN dropped ELSE Dropped(bad, dropped)
        /\ tags' = Bump(tags, r.tag)
        /\ st' = [(IF new THEN Fresh ELSE st) EXCEPT ![e.c] = r.s]
        /\ raw' = [(IF new THEN Empty3 ELSE raw) EXCEPT ![e.c] = r.raw]
        /\ slots' = [(IF new THEN Empty3 ELSE slots) EXCEPT ![e.c] = r.sl]
        /\ ask' = [(IF new THEN [c \in 1..MaxC |-> NoAsk] ELSE ask) EXCEPT
                     ![e.c] = IF e.ev = "Call" THEN AskOf(r.s, e.a) ELSE a0]
        /\ listed' = [(IF new THEN [c \in 1..MaxC |-> FALSE] ELSE listed) EXCEPT
                     ![e.c] = IF e.ev = "Reply" THEN e.src = "device" ELSE d0]
        /\ tid' = e.tid
  /\ i' = i + 1
vars == <<i, bad, dropped, tags, st, raw, slots, ask, listed, tid>>
Spec == Init /\ [][Next]_vars
Done == i = NEvents + 1 => WriteVerdict(bad, dropped, tags)

\* the hard form of FrameCountOk: only ever false in a state whose step already carries the clause above
FrameCountBounded == \A c \in 1..MaxC : FrameCountOk(st[c])
=============================================================================
