SPECIFICATION Spec
INVARIANT EncodingWellFormed
INVARIANT DecodeInvertsEncode
INVARIANT FixedLengths
INVARIANT BlankKeepsTheRest
CHECK_DEADLOCK FALSE
