SPECIFICATION Spec
INVARIANT RoundTrip
INVARIANT MaskShape
INVARIANT Injective
INVARIANT MaskRoundTrip
INVARIANT OnlyEvenMasksAreImages
CHECK_DEADLOCK FALSE
