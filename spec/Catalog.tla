------------------------------- MODULE Catalog -------------------------------
(***************************************************************************)
(* Laws tying device types, categories, device classes and ports together  *)
(* (C19).  A catalogue is a record                                         *)
(*   types   : sequence of [name, code (text), ptype, cat]                  *)
(*   cats    : sequence of category names                                   *)
(*   accepts : sequence of [own (category the class is for), type (index    *)
(*             into types), ok (BOOLEAN: construction succeeded)]           *)
(*   udp, tcp: sequences of [cat, port]                                     *)
(* Violations(c) is the set of names of the laws c breaks.                  *)
(***************************************************************************)
EXTENDS Bytes

Idx(q) == 1..Len(q)
PTypeOfCat(c, cat) == {c.types[k].ptype : k \in {j \in Idx(c.types) : c.types[j].cat = cat}}
UdpOf(pt) == IF pt = 1 THEN 20002 ELSE 20003
TcpOf(pt) == IF pt = 1 THEN 9957 ELSE 10000
Keys(tab) == {tab[k].cat : k \in Idx(tab)}

Violations(c) ==
     {"C19:model-code-is-two-bytes" : x \in {k \in Idx(c.types) : ~(Len(c.types[k].code) = 4 /\ IsHexText(c.types[k].code))}}
\cup {"C19:model-code-unique" : x \in {p \in Idx(c.types) \X Idx(c.types) : p[1] < p[2] /\ UnHex(c.types[p[1]].code) = UnHex(c.types[p[2]].code)
                                                                        /\ IsHexText(c.types[p[1]].code) /\ IsHexText(c.types[p[2]].code)}}
\cup {"C19:protocol-type-is-1-or-2" : x \in {k \in Idx(c.types) : c.types[k].ptype \notin {1, 2}}}
\cup {"C19:type-has-a-known-category" : x \in {k \in Idx(c.types) : \A j \in Idx(c.cats) : c.cats[j] # c.types[k].cat}}
\cup {"C19:category-has-one-protocol-type" : x \in {j \in Idx(c.cats) : Cardinality(PTypeOfCat(c, c.cats[j])) > 1}}
\cup {"C19:class-accepts-exactly-its-category" : x \in {k \in Idx(c.accepts) : c.accepts[k].ok # (c.types[c.accepts[k].type].cat = c.accepts[k].own)}}
\cup {"C19:every-class-type-pair-tried" : x \in {p \in Keys(c.udp) \X Idx(c.types) : ~\E k \in Idx(c.accepts) : c.accepts[k].own = p[1] /\ c.accepts[k].type = p[2]}}
\cup {"C19:udp-table-total" : x \in {j \in Idx(c.cats) : Cardinality({k \in Idx(c.udp) : c.udp[k].cat = c.cats[j]}) # 1}}
\cup {"C19:tcp-table-total" : x \in {j \in Idx(c.cats) : Cardinality({k \in Idx(c.tcp) : c.tcp[k].cat = c.cats[j]}) # 1}}
\cup {"C19:udp-port-of-protocol-type" : x \in {k \in Idx(c.udp) : \E pt \in PTypeOfCat(c, c.udp[k].cat) : c.udp[k].port # UdpOf(pt)}}
\cup {"C19:tcp-port-of-protocol-type" : x \in {k \in Idx(c.tcp) : \E pt \in PTypeOfCat(c, c.tcp[k].cat) : c.tcp[k].port # TcpOf(pt)}}
=============================================================================
