SPECIFICATION Spec
CONSTANT Masks <- AllMasks
INVARIANT UnsupportedIffAbsent
INVARIANT CodeIsStored
INVARIANT MostSpecific
INVARIANT ExactWins
INVARIANT PlainOff
INVARIANT PrefixOnlyWhenToggling
INVARIANT ClampedIntoRange
INVARIANT PayloadShape
CHECK_DEADLOCK FALSE
