----------------------------- MODULE Gen_Switcher -----------------------------
(***************************************************************************)
(* spec -> code, end to end: Switcher.tla with a history variable.  TLC      *)
(* simulates behaviours of the composition (commands over TCP, state         *)
(* queries, time passing at the device, broadcasts sent / lost / delivered,  *)
(* the user's bridge started and stopped) and prints each behaviour as one   *)
(* JSON line: the actions taken and, after every action, what the user must  *)
(* see - the bridge's running flag, the device object last handed to the     *)
(* callback (`view`) and the response of the last state query (`read`).      *)
(* harness/e2edrive.py (GenRun) steps a real API object, a simulated device  *)
(* and a real SwitcherBridge through exactly these behaviours.               *)
(***************************************************************************)
EXTENDS Switcher, Json

CONSTANT Depth
VARIABLE env
gvars == <<vars, env>>

Proj == [running |-> running', view |-> view', read |-> read', air |-> Len(air')]
Log(a, x) == env' = Append(env, [a |-> a, x |-> x, exp |-> Proj])
NoArg == [none |-> 0]
\* (the simulator picks uniformly among the successor states: a small choice of commands leaves room for time, air and bridge)
GenAsks == {a \in ThermoAsks : (a.mode = 4 /\ a.fan = 0 /\ a.temp = 18) \/ (a.mode = 1 /\ a.fan = 3 /\ a.temp = 30 /\ a.swing = 1 /\ a.state = 1)}

GInit == Init /\ env = <<>>
GNext ==
  \/ \E on \in {0, 1}, m \in Timers : Control(on, m) /\ Log("Control", [on |-> on, minutes |-> m])
  \/ \E s \in AutoOffs : SetAutoOff(s) /\ Log("SetAutoOff", [secs |-> s])
  \/ \E p \in Positions : SetPosition(p) /\ Log("SetPosition", [pos |-> p])
  \/ StopShutter /\ Log("StopShutter", NoArg)
  \/ \E a \in GenAsks : TellThermo(a) /\ Log("TellThermo", a)
  \/ Query /\ Log("Query", NoArg)
  \/ Elapse1 /\ Log("Elapse", [s |-> Step])
  \/ Broadcast /\ Log("Broadcast", NoArg)
  \/ Lose /\ Log("Lose", NoArg)
  \/ Deliver /\ Log("Deliver", NoArg)
  \/ Start /\ Log("Start", NoArg)
  \/ Stop /\ Log("Stop", NoArg)
GSpec == GInit /\ [][GNext]_gvars

\* print the behaviour when it has reached the simulation depth
Emit == TLCGet("level") < Depth \/ PrintT(<<"BEHAVIOUR", ToJson(env)>>)
=============================================================================
