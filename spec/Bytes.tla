------------------------------- MODULE Bytes -------------------------------
(***************************************************************************)
(* L0 of the aioswitcher specification: bytes, little-endian numbers,      *)
(* hexadecimal and decimal text, UTF-8, and the protocol's signature       *)
(* (double CRC-16/CCITT, polynomial 0x1021, initial value 0x1021).         *)
(*                                                                         *)
(* Conventions used by every module above this one:                        *)
(*   - a byte string is a sequence over 0..255 (1-based positions);        *)
(*     "offset k" of the protocol write-up is position k+1 here;           *)
(*   - text is a sequence of byte values (ASCII / UTF-8), never a TLA+     *)
(*     string, because TLC cannot look inside strings;                     *)
(*   - 32-bit quantities that may exceed 2^31-1 are carried either as four *)
(*     little-endian bytes or as limbs <<hi16, lo16>> (TLC integers are    *)
(*     32-bit signed).                                                     *)
(***************************************************************************)
EXTENDS Naturals, Sequences, SequencesExt, Bitwise, FiniteSets

Byte == 0..255

IsByteSeq(s) == \A k \in 1..Len(s) : s[k] \in Byte

Zeros(n) == [k \in 1..n |-> 0]
Rep(b, n) == [k \in 1..n |-> b]

\* s[a..b] by protocol offsets (0-based, inclusive); total: clipped to the string
Slice(s, a, b) == SubSeq(s, a + 1, IF b + 1 > Len(s) THEN Len(s) ELSE b + 1)
At(s, k) == s[k + 1]                      \* byte at protocol offset k

LE16(n) == <<n % 256, (n \div 256) % 256>>
LE16At(s, k) == s[k + 1] + 256 * s[k + 2]  \* offset k (0-based)

\* 32-bit values as limbs <<hi16, lo16>>
Limbs(b4) == <<b4[3] + 256 * b4[4], b4[1] + 256 * b4[2]>>      \* from 4 LE bytes
LimbsLE32(l) == <<l[2] % 256, l[2] \div 256, l[1] % 256, l[1] \div 256>>
LimbLeq(a, b) == a[1] < b[1] \/ (a[1] = b[1] /\ a[2] <= b[2])
\* a 31-bit natural as four little-endian bytes / back
LE32(n) == <<n % 256, (n \div 256) % 256, (n \div 65536) % 256, (n \div 16777216) % 256>>
Fits31(b4) == b4[4] < 128
Nat31(b4) == b4[1] + 256 * b4[2] + 65536 * b4[3] + 16777216 * b4[4]   \* only if Fits31

\* 60 * m as four LE bytes without overflowing TLC's integers; <<>> if it needs more than 32 bits
Times60LE32(m) ==
  LET lo == (m % 65536) * 60
      hi == (m \div 65536) * 60 + lo \div 65536
  IN IF hi >= 65536 THEN <<>> ELSE LE16(lo % 65536) \o LE16(hi)

---------------------------------------------------------------------------
(* hexadecimal and decimal text (as ASCII codes)                            *)

HexDigitLower(n) == IF n < 10 THEN 48 + n ELSE 87 + n        \* '0'..'9','a'..'f'
HexLower(bs) == [k \in 1..(2 * Len(bs)) |->
                   IF k % 2 = 1 THEN HexDigitLower(bs[(k + 1) \div 2] \div 16) ELSE HexDigitLower(bs[k \div 2] % 16)]

IsHexDigit(c) == (c >= 48 /\ c <= 57) \/ (c >= 97 /\ c <= 102) \/ (c >= 65 /\ c <= 70)
HexVal(c) == IF c <= 57 THEN c - 48 ELSE IF c >= 97 THEN c - 87 ELSE c - 55
IsHexText(t) == Len(t) % 2 = 0 /\ \A k \in 1..Len(t) : IsHexDigit(t[k])
UnHex(t) == [k \in 1..(Len(t) \div 2) |-> 16 * HexVal(t[2 * k - 1]) + HexVal(t[2 * k])]

Digit(n) == 48 + n
TwoDigits(n) == <<Digit((n \div 10) % 10), Digit(n % 10)>>
RECURSIVE Decimal(_)
Decimal(n) == IF n < 10 THEN <<Digit(n)>> ELSE Decimal(n \div 10) \o <<Digit(n % 10)>>

Colon == 58
\* "HH:MM:SS" for 0 <= sec <= 86399
HHMMSS(sec) == TwoDigits(sec \div 3600) \o <<Colon>> \o TwoDigits((sec \div 60) % 60) \o <<Colon>> \o TwoDigits(sec % 60)
HHMM(min) == TwoDigits(min \div 60) \o <<Colon>> \o TwoDigits(min % 60)

\* strip trailing NUL bytes
RECURSIVE StripNul(_)
StripNul(s) == IF s # <<>> /\ s[Len(s)] = 0 THEN StripNul(SubSeq(s, 1, Len(s) - 1)) ELSE s

---------------------------------------------------------------------------
(* UTF-8 (RFC 3629)                                                         *)

Cont6(x) == 128 + (x % 64)
Utf8(cp) ==
  IF cp < 128 THEN <<cp>>
  ELSE IF cp < 2048 THEN <<192 + (cp \div 64), Cont6(cp)>>
  ELSE IF cp < 65536 THEN <<224 + (cp \div 4096), Cont6(cp \div 64), Cont6(cp)>>
  ELSE <<240 + (cp \div 262144), Cont6(cp \div 4096), Cont6(cp \div 64), Cont6(cp)>>

Utf8Seq(cps) == FoldLeft(LAMBDA acc, cp : acc \o Utf8(cp), <<>>, cps)

IsCont(b) == b >= 128 /\ b <= 191
\* strict validity: shortest form, no surrogates, <= U+10FFFF
RECURSIVE IsUtf8From(_, _)
IsUtf8From(s, k) ==
  IF k > Len(s) THEN TRUE
  ELSE LET b == s[k] n == Len(s) IN
    IF b < 128 THEN IsUtf8From(s, k + 1)
    ELSE IF b >= 194 /\ b <= 223 THEN k + 1 <= n /\ IsCont(s[k + 1]) /\ IsUtf8From(s, k + 2)
    ELSE IF b >= 224 /\ b <= 239 THEN
         /\ k + 2 <= n /\ IsCont(s[k + 1]) /\ IsCont(s[k + 2])
         /\ (b = 224 => s[k + 1] >= 160)
         /\ (b = 237 => s[k + 1] <= 159)
         /\ IsUtf8From(s, k + 3)
    ELSE IF b >= 240 /\ b <= 244 THEN
         /\ k + 3 <= n /\ IsCont(s[k + 1]) /\ IsCont(s[k + 2]) /\ IsCont(s[k + 3])
         /\ (b = 240 => s[k + 1] >= 144)
         /\ (b = 244 => s[k + 1] <= 143)
         /\ IsUtf8From(s, k + 4)
    ELSE FALSE
IsUtf8(s) == IsUtf8From(s, 1)

---------------------------------------------------------------------------
(* CRC-16/CCITT, polynomial 0x1021.  CrcBitwise is the definition; the     *)
(* 256-entry table is derived from it and Crc16 is the table-driven form   *)
(* used for bulk work (MC_Bytes checks they agree).                        *)

Poly == 4129            \* 0x1021
SignInit == 4129        \* 0x1021: the initial value the Switcher protocol uses

ShiftXor(c) == IF c >= 32768 THEN ((c - 32768) * 2) ^^ Poly ELSE c * 2
RECURSIVE Shifts(_, _)
Shifts(c, k) == IF k = 0 THEN c ELSE Shifts(ShiftXor(c), k - 1)

CrcBitwise(bs, init) == FoldLeft(LAMBDA c, b : Shifts(c ^^ (b * 256), 8), init, bs)

CrcTable == [b \in 0..255 |-> Shifts(b * 256, 8)]
Crc16(bs, init) == FoldLeft(LAMBDA c, b : ((c % 256) * 256) ^^ CrcTable[(c \div 256) ^^ b], init, bs)

KeyPad == Rep(48, 32)   \* thirty-two 0x30 bytes
Sig(bs) ==
  LET c1 == Crc16(bs, SignInit)
      c2 == Crc16(LE16(c1) \o KeyPad, SignInit)
  IN LE16(c1) \o LE16(c2)
Sign(bs) == bs \o Sig(bs)

\* Signing as the library exposes it: hex text in, hex text out; "Raise" (a model value
\* represented by the string) for input that is not an even number of hex digits.
SignHex(text) == IF IsHexText(text) THEN text \o HexLower(Sig(UnHex(text))) ELSE <<>>
=============================================================================
