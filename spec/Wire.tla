-------------------------------- MODULE Wire --------------------------------
(***************************************************************************)
(* L1: the frames a client writes to a Switcher device.  Written            *)
(* structurally (40-byte header + body + signature), independently of the   *)
(* library's hex templates, together with an independently written decoder. *)
(*                                                                          *)
(* An abstract frame is a record with                                       *)
(*   kind : one of Kinds                                                    *)
(*   sess : 4 bytes (session id; four zero bytes in login frames)           *)
(*   ts   : 4 bytes (little-endian epoch second)                            *)
(*   dev  : 3 bytes (device id)         -- all kinds except login1          *)
(* and per kind:                                                            *)
(*   login1        key   : 1 byte                                           *)
(*   control       on    : 0/1,  timer : 4 bytes (LE seconds)               *)
(*   autooff       secs  : 4 bytes                                          *)
(*   setname       name  : 32 bytes                                         *)
(*   delschedule   slot  : 0..15                                            *)
(*   createschedule mask : byte, start : 4 bytes, end : 4 bytes             *)
(*   breezecmd     payload : bytes (IR payload incl. its four zero bytes)   *)
(*   breezestatus  state, mode, temp : bytes, fan, swing : nibbles          *)
(*   runnerpos     pos   : byte                                             *)
(***************************************************************************)
EXTENDS Bytes

Magic == <<254, 240>>        \* fe f0
Terminator == <<240, 254>>   \* f0 fe
Proto1 == <<2, 50>>          \* 02 32
Proto2 == <<3, 5>>           \* 03 05
Z36 == Zeros(36)
NoSession == Zeros(4)

Kinds == {"login1", "login2", "getstate1", "getstate2", "control", "autooff", "setname", "getschedules",
          "delschedule", "createschedule", "breezecmd", "breezestatus", "runnerstop", "runnerpos"}
LoginKinds == {"login1", "login2"}

\* header fields per kind: protocol bytes (4-5), command class (6-7), control bytes (12-14)
ProtoOf(k) == IF k \in {"login1", "getstate1", "control", "autooff", "setname", "getschedules", "delschedule", "createschedule"}
              THEN Proto1 ELSE Proto2
CmdOf(k) ==
  CASE k = "login1" -> <<161, 0>>            \* a1 00
    [] k = "login2" -> <<166, 0>>            \* a6 00
    [] k \in {"getstate1", "getstate2"} -> <<1, 3>>
    [] k = "setname" -> <<2, 2>>
    [] k = "breezestatus" -> <<1, 14>>       \* 01 0e
    [] OTHER -> <<1, 2>>
CtlOf(k) ==
  CASE k = "login2" -> <<255, 3, 1>>         \* ff 03 01
    [] k = "getstate2" -> <<57, 0, 1>>       \* 39 00 01
    [] k \in {"breezecmd", "breezestatus"} -> <<0, 0, 1>>
    [] k = "runnerstop" -> <<35, 35, 1>>     \* 23 23 01
    [] k = "runnerpos" -> <<41, 4, 1>>       \* 29 04 01
    [] OTHER -> <<52, 0, 1>>                 \* 34 00 01

Header(len, k, sess, ts) ==
  Magic \o LE16(len) \o ProtoOf(k) \o CmdOf(k) \o sess \o CtlOf(k) \o Zeros(9) \o ts \o Zeros(10) \o Terminator

Body(f) ==
  CASE f.kind = "login1" -> f.key \o Z36 \o <<0>>
    [] f.kind \in {"login2", "getstate1", "getstate2"} -> f.dev \o <<0>>
    [] f.kind = "control" -> f.dev \o Z36 \o <<0, 1, 6, 0, f.on, 0>> \o f.timer
    [] f.kind = "autooff" -> f.dev \o Z36 \o <<0, 4, 4, 0>> \o f.secs
    [] f.kind = "setname" -> f.dev \o Z36 \o <<0>> \o f.name
    [] f.kind = "getschedules" -> f.dev \o Z36 \o <<0, 6, 0, 0>>
    [] f.kind = "delschedule" -> f.dev \o Z36 \o <<0, 8, 1, 0, f.slot>>
    [] f.kind = "createschedule" -> f.dev \o Z36 \o <<0, 3, 12, 0, 255, 1, f.mask, 1>> \o f.start \o f.end
    [] f.kind = "breezecmd" -> f.dev \o Z36 \o <<55, 1>> \o LE16(Len(f.payload)) \o f.payload
    [] f.kind = "breezestatus" -> f.dev \o Z36 \o <<55, 1, 0, 3, 11, 4, 0, f.state, f.mode, f.temp, 16 * f.fan + f.swing>>
    [] f.kind = "runnerstop" -> f.dev \o Z36 \o <<55, 2, 2, 0, 0, 0>>
    [] f.kind = "runnerpos" -> f.dev \o Z36 \o <<55, 1, 1, 0, f.pos>>

Unsigned(f) == LET b == Body(f) IN Header(40 + Len(b) + 4, f.kind, f.sess, f.ts) \o b
Frame(f) == Sign(Unsigned(f))
FrameLen(f) == 44 + Len(Body(f))

---------------------------------------------------------------------------
(* C01: what every written frame must satisfy, clause by clause             *)
HasMagic(b) == Len(b) >= 2 /\ SubSeq(b, 1, 2) = Magic
LengthOk(b) == Len(b) >= 4 /\ LE16At(b, 2) = Len(b)
TerminatorOk(b) == Len(b) >= 40 /\ SubSeq(b, 39, 40) = Terminator
SignatureOk(b) == Len(b) >= 44 /\ SubSeq(b, Len(b) - 3, Len(b)) = Sig(SubSeq(b, 1, Len(b) - 4))
WellFormed(b) == HasMagic(b) /\ LengthOk(b) /\ TerminatorOk(b) /\ SignatureOk(b)

---------------------------------------------------------------------------
(* masks: the bytes other properties own (length 2-3, session 8-11,         *)
(* timestamp 24-27, signature) are blanked before C02 compares a frame with *)
(* the specification's encoding                                              *)
Blank(b) == [k \in 1..Len(b) |->
               IF k \in {3, 4} \/ k \in 9..12 \/ k \in 25..28 \/ k > Len(b) - 4 THEN 0 ELSE b[k]]
SessOf(b) == SubSeq(b, 9, 12)
TsOf(b) == SubSeq(b, 25, 28)

---------------------------------------------------------------------------
(* the decoder, written from the layout table rather than by inverting      *)
(* Body: it looks at the header to find the family and at the body marker   *)
(* to find the operation                                                     *)
Malformed == [kind |-> "malformed"]
BodyOf(b) == SubSeq(b, 41, Len(b) - 4)
DecodeFrame(b) ==
  IF ~(Len(b) >= 48 /\ HasMagic(b) /\ TerminatorOk(b)) THEN Malformed
  ELSE
  LET proto == SubSeq(b, 5, 6)
      cmd == SubSeq(b, 7, 8)
      ctl == SubSeq(b, 13, 15)
      sess == SessOf(b)
      ts == TsOf(b)
      body == BodyOf(b)
      n == Len(body)
      dev == SubSeq(body, 1, 3)
      base == [sess |-> sess, ts |-> ts, dev |-> dev]
      tail == SubSeq(body, 40, n)          \* what follows dev + 36 zero bytes
      padded == n >= 40 /\ SubSeq(body, 4, 39) = Z36
  IN
  IF proto = Proto1 /\ ctl = <<52, 0, 1>> THEN
       IF cmd = <<161, 0>> /\ n = 38 /\ SubSeq(body, 2, 38) = Zeros(37)
         THEN [kind |-> "login1", sess |-> sess, ts |-> ts, key |-> SubSeq(body, 1, 1)]
       ELSE IF cmd = <<1, 3>> /\ n = 4 /\ body[4] = 0 THEN base @@ [kind |-> "getstate1"]
       ELSE IF cmd = <<2, 2>> /\ padded /\ Len(tail) = 33 /\ tail[1] = 0
         THEN base @@ [kind |-> "setname", name |-> SubSeq(tail, 2, 33)]
       ELSE IF cmd = <<1, 2>> /\ padded /\ Len(tail) >= 4 THEN
            IF SubSeq(tail, 1, 4) = <<0, 1, 6, 0>> /\ Len(tail) = 10 /\ tail[5] \in {0, 1} /\ tail[6] = 0
              THEN base @@ [kind |-> "control", on |-> tail[5], timer |-> SubSeq(tail, 7, 10)]
            ELSE IF SubSeq(tail, 1, 4) = <<0, 4, 4, 0>> /\ Len(tail) = 8
              THEN base @@ [kind |-> "autooff", secs |-> SubSeq(tail, 5, 8)]
            ELSE IF tail = <<0, 6, 0, 0>> THEN base @@ [kind |-> "getschedules"]
            ELSE IF SubSeq(tail, 1, 4) = <<0, 8, 1, 0>> /\ Len(tail) = 5 /\ tail[5] < 16
              THEN base @@ [kind |-> "delschedule", slot |-> tail[5]]
            ELSE IF SubSeq(tail, 1, 4) = <<0, 3, 12, 0>> /\ Len(tail) = 16 /\ tail[5] = 255 /\ tail[6] = 1 /\ tail[8] = 1
              THEN base @@ [kind |-> "createschedule", mask |-> tail[7], start |-> SubSeq(tail, 9, 12), end |-> SubSeq(tail, 13, 16)]
            ELSE Malformed
       ELSE Malformed
  ELSE IF proto = Proto2 THEN
       IF cmd = <<166, 0>> /\ ctl = <<255, 3, 1>> /\ n = 4 /\ body[4] = 0
         THEN [kind |-> "login2", sess |-> sess, ts |-> ts, dev |-> dev]
       ELSE IF cmd = <<1, 3>> /\ ctl = <<57, 0, 1>> /\ n = 4 /\ body[4] = 0 THEN base @@ [kind |-> "getstate2"]
       ELSE IF cmd = <<1, 14>> /\ ctl = <<0, 0, 1>> /\ padded /\ Len(tail) = 11 /\ SubSeq(tail, 1, 7) = <<55, 1, 0, 3, 11, 4, 0>>
         THEN base @@ [kind |-> "breezestatus", state |-> tail[8], mode |-> tail[9], temp |-> tail[10],
                       fan |-> tail[11] \div 16, swing |-> tail[11] % 16]
       ELSE IF cmd = <<1, 2>> /\ ctl = <<0, 0, 1>> /\ padded /\ Len(tail) >= 4 /\ SubSeq(tail, 1, 2) = <<55, 1>>
               /\ LE16At(tail, 2) = Len(tail) - 4
         THEN base @@ [kind |-> "breezecmd", payload |-> SubSeq(tail, 5, Len(tail))]
       ELSE IF cmd = <<1, 2>> /\ ctl = <<35, 35, 1>> /\ padded /\ tail = <<55, 2, 2, 0, 0, 0>> THEN base @@ [kind |-> "runnerstop"]
       ELSE IF cmd = <<1, 2>> /\ ctl = <<41, 4, 1>> /\ padded /\ Len(tail) = 5 /\ SubSeq(tail, 1, 4) = <<55, 1, 1, 0>>
         THEN base @@ [kind |-> "runnerpos", pos |-> tail[5]]
       ELSE Malformed
  ELSE Malformed

---------------------------------------------------------------------------
(* accepted argument domains and their encodings (C02)                      *)

\* timer: 60 x minutes as LE32, zero when no timer; <<>> = must raise (beyond 32 bits)
TimerField(minutes) == IF minutes <= 0 THEN Zeros(4) ELSE Times60LE32(minutes)

\* auto shutdown: whole minutes within 1h .. 23h59m; <<>> = must raise
AutoOffSeconds(secs) == 60 * (secs \div 60)
AutoOffAccepted(secs) == secs >= 0 /\ AutoOffSeconds(secs) >= 3600 /\ AutoOffSeconds(secs) <= 86340
AutoOffField(secs) == IF AutoOffAccepted(secs) THEN LE32(AutoOffSeconds(secs)) ELSE <<>>

\* name: UTF-8, zero padded to exactly 32 bytes
NameBytes(cps) == Utf8Seq(cps)
NameAccepted(cps) == Len(cps) >= 2 /\ Len(NameBytes(cps)) <= 32
NameRejected(cps) == Len(cps) < 2 \/ Len(NameBytes(cps)) > 32     \* what is neither is left open (one multi-byte character)
NameField(cps) == LET u == NameBytes(cps) IN u \o Zeros(32 - Len(u))

PositionAccepted(p) == p >= 0 /\ p <= 100
SlotAccepted(s) == s >= 0 /\ s <= 7
=============================================================================
