SPECIFICATION Spec
INVARIANT ReferenceHolds
INVARIANT EachLawBites
CHECK_DEADLOCK FALSE
