SPECIFICATION Spec
CONSTANTS MaxOps = 3
          AnswersLate = FALSE
          LibraryGivesUp = "keeps"
INVARIANT SessionOfThisLogin
CHECK_DEADLOCK FALSE
