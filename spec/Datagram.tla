------------------------------ MODULE Datagram ------------------------------
(***************************************************************************)
(* L1: status broadcasts (C05, C06).  Sender's layouts (protocol offsets,  *)
(* 0-based), reconstructed from the captures in tests/testresources:       *)
(*  common   0-1 fe f0 . 2-3 total length LE16 . 18-20 device id . 40 login *)
(*           key . 42-73 name (UTF-8, zero padded) . 74-75 model code        *)
(*  heater   165 bytes: IP 76-79 . MAC 80-85 . state 133 . power LE16 135 .  *)
(*  / plug   remaining LE32 147 . auto shutdown LE32 155 (heater only)        *)
(*  thermo   168 bytes: IP 77-80 . MAC 81-86 . temperature LE16 135 . power  *)
(*           137 . mode 138 . target 139 . fan|swing nibbles 140 . remote id *)
(*           143-150                                                         *)
(*  shutter  159 bytes: IP 77-80 . MAC 81-86 . position 135 (136 = 0) .      *)
(*           direction 137-138                                               *)
(* A device is a record of plain values; texts are byte sequences.           *)
(***************************************************************************)
EXTENDS Replies

\* the model codes of the pinned commit: <<code, type name, family>>
Models == <<
  [code |-> <<3, 15>>, name |-> "MINI", fam |-> "heater"],
  [code |-> <<1, 168>>, name |-> "POWER_PLUG", fam |-> "plug"],
  [code |-> <<3, 11>>, name |-> "TOUCH", fam |-> "heater"],
  [code |-> <<1, 167>>, name |-> "V2_ESP", fam |-> "heater"],
  [code |-> <<1, 161>>, name |-> "V2_QCA", fam |-> "heater"],
  [code |-> <<3, 23>>, name |-> "V4", fam |-> "heater"],
  [code |-> <<14, 1>>, name |-> "BREEZE", fam |-> "thermo"],
  [code |-> <<12, 1>>, name |-> "RUNNER", fam |-> "shutter"],
  [code |-> <<12, 2>>, name |-> "RUNNER_MINI", fam |-> "shutter"] >>
ModelOf(code) == LET ks == {k \in 1..Len(Models) : Models[k].code = code} IN
                 IF ks = {} THEN [code |-> code, name |-> "?", fam |-> "?"] ELSE Models[CHOOSE k \in ks : TRUE]
FamLen(fam) == CASE fam = "thermo" -> 168 [] fam = "shutter" -> 159 [] OTHER -> 165
ClassOf(fam) == CASE fam = "heater" -> "SwitcherWaterHeater" [] fam = "plug" -> "SwitcherPowerPlug"
                  [] fam = "thermo" -> "SwitcherThermostat" [] fam = "shutter" -> "SwitcherShutter" [] OTHER -> "?"
CatFam(cat) == CASE cat = "WATER_HEATER" -> "heater" [] cat = "POWER_PLUG" -> "plug" [] cat = "THERMOSTAT" -> "thermo"
                 [] cat = "SHUTTER" -> "shutter" [] OTHER -> "?"

---------------------------------------------------------------------------
(* C06: the gate                                                            *)
Gate(b) == Len(b) \in {165, 168, 159} /\ SubSeq(b, 1, 2) = <<254, 240>>
CodeOf(b) == Field(b, 74, 2)

---------------------------------------------------------------------------
(* text renderings                                                          *)
Dot == 46
IpText(b4) == Decimal(b4[1]) \o <<Dot>> \o Decimal(b4[2]) \o <<Dot>> \o Decimal(b4[3]) \o <<Dot>> \o Decimal(b4[4])
HexDigitUpper(n) == IF n < 10 THEN 48 + n ELSE 55 + n
HexUp(x) == <<HexDigitUpper(x \div 16), HexDigitUpper(x % 16)>>
MacText(b6) == HexUp(b6[1]) \o <<Colon>> \o HexUp(b6[2]) \o <<Colon>> \o HexUp(b6[3]) \o <<Colon>> \o HexUp(b6[4])
               \o <<Colon>> \o HexUp(b6[5]) \o <<Colon>> \o HexUp(b6[6])

NameOf(b) == StripNul(Field(b, 42, 32))
CommonOk(b) == LET nm == NameOf(b) IN Len(nm) >= 1 /\ IsUtf8(Field(b, 42, 32))

\* well-formed for its family: what "the device encoded" has a meaning for every field
WellFormedFor(fam, b) ==
  /\ Len(b) = FamLen(fam) /\ CommonOk(b)
  \* (the remaining-time field of a heater that reports OFF means nothing: it is reported as zero whatever it holds)
  /\ CASE fam = "heater" -> At(b, 133) \in {0, 1} /\ (At(b, 133) = 0 \/ TimeOk(Field(b, 147, 4))) /\ TimeOk(Field(b, 155, 4))
       [] fam = "plug" -> At(b, 133) \in {0, 1}
       [] fam = "thermo" -> /\ At(b, 137) \in {0, 1} /\ At(b, 138) \in 1..5
                            /\ At(b, 140) \div 16 \in 0..3 /\ At(b, 140) % 16 \in {0, 1}
                            /\ IsAsciiPrintable(Field(b, 143, 8))
       [] fam = "shutter" -> At(b, 135) <= 100 /\ At(b, 136) = 0 /\ Field(b, 137, 2) \in Directions
       [] OTHER -> FALSE

\* broadcasts the decoder TOLERATES although an enumerated byte is outside its domain: the state byte of a heater or plug
\* (anything but 01 reads as off), and of a thermostat its power byte, its mode byte (an unknown mode reads as cool) and its
\* swing nibble.  What those fields then read as is not constrained here - but such a broadcast is still one the bridge hands over.
Tolerated(fam, b) ==
  /\ Len(b) = FamLen(fam) /\ CommonOk(b)
  /\ CASE fam = "heater" -> TimeOk(Field(b, 155, 4)) /\ (At(b, 133) # 1 \/ TimeOk(Field(b, 147, 4)))
       [] fam = "plug" -> TRUE
       [] fam = "thermo" -> At(b, 140) \div 16 \in 0..3 /\ IsAsciiPrintable(Field(b, 143, 8))
       [] OTHER -> FALSE

\* what the callback must receive for a well-formed broadcast of family fam
DecodeDevice(fam, b) ==
  LET t1 == fam \in {"heater", "plug"}
      on == IF fam = "thermo" THEN At(b, 137) = 1 ELSE IF t1 THEN At(b, 133) = 1 ELSE TRUE
      common == [type |-> ModelOf(CodeOf(b)).name, cls |-> ClassOf(fam),
                 id |-> HexLower(Field(b, 18, 3)), key |-> HexLower(Field(b, 40, 1)),
                 ip |-> IpText(IF t1 THEN Field(b, 76, 4) ELSE Field(b, 77, 4)),
                 mac |-> MacText(IF t1 THEN Field(b, 80, 6) ELSE Field(b, 81, 6)),
                 name |-> NameOf(b), state |-> IF on THEN 1 ELSE 0]
  IN CASE fam = "heater" ->
            common @@ [watts |-> IF on THEN LE16At(b, 135) ELSE 0,
                       remaining |-> IF on THEN HHMMSS(Nat31(Field(b, 147, 4))) ELSE HHMMSS(0),
                       auto |-> HHMMSS(Nat31(Field(b, 155, 4)))]
       [] fam = "plug" -> common @@ [watts |-> IF on THEN LE16At(b, 135) ELSE 0]
       [] fam = "thermo" ->
            common @@ [mode |-> At(b, 138), temp10 |-> LE16At(b, 135), target |-> At(b, 139),
                       fan |-> At(b, 140) \div 16, swing |-> At(b, 140) % 16, remote |-> Field(b, 143, 8)]
       [] fam = "shutter" -> common @@ [position |-> At(b, 135), direction |-> Field(b, 137, 2)]

\* device-side encoder: fields placed into any base string of the family's length
EncodeDevice(base, fam, code, d) ==
  LET t1 == fam \in {"heater", "plug"}
      c0 == Place(Place(Place(Place(Place(Place(base, 0, <<254, 240>>), 2, LE16(Len(base))), 18, d.id), 40, d.key),
                        42, d.name \o Zeros(32 - Len(d.name))), 74, code)
      c1 == Place(Place(c0, IF t1 THEN 76 ELSE 77, d.ip), IF t1 THEN 80 ELSE 81, d.mac)
  IN CASE fam = "heater" -> Place(Place(Place(Place(c1, 133, <<d.state>>), 135, LE16(d.watts)), 147, LE32(d.remaining)), 155, LE32(d.auto))
       [] fam = "plug" -> Place(Place(c1, 133, <<d.state>>), 135, LE16(d.watts))
       [] fam = "thermo" -> Place(Place(c1, 135, LE16(d.temp10) \o <<d.state, d.mode, d.target, 16 * d.fan + d.swing>>), 143, d.remote)
       [] fam = "shutter" -> Place(c1, 135, <<d.position, 0>> \o d.direction)
=============================================================================
