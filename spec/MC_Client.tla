------------------------------ MODULE MC_Client ------------------------------
(***************************************************************************)
(* Two API instances (one type-1, one type-2, different ids and keys), each *)
(* behind its own connection to a device that issues a fresh session id on  *)
(* every login, a ticking clock, and replies of every class released in     *)
(* every order: all interleavings at await granularity.  The clients follow *)
(* Client!Expect; the properties below are stated over the history of       *)
(* frames and outcomes, independently of Expect.                            *)
(***************************************************************************)
EXTENDS Client, TLC

CONSTANTS MaxOps, MaxClock, Small, Tiny        \* Tiny: the smallest alphabet that still has every operation class (two operations per client finish with it)
Clients == {1, 2}
Cfg(c) == IF c = 1 THEN [api |-> 1, dev |-> <<1, 1, 1>>, key |-> <<17>>] ELSE [api |-> 2, dev |-> <<2, 2, 2>>, key |-> <<34>>]

T(s) == [k \in 1..Len(s) |-> s[k]]
W(key) == [key |-> key, para |-> <<80>>, hex |-> <<72>> \o key]
PlainSet == [id |-> <<88>>, onoff |-> 0, waves |-> <<W(ModeCode(4) \o <<50, 48>> \o FanPart(1)), W(OffKey)>>]
SepSet == [id |-> <<69, 76, 69, 67, 55, 48, 50, 50>>, onoff |-> 1,
           waves |-> <<W(ModeCode(4) \o <<50, 48>> \o FanPart(1)), W(OnPrefix \o ModeCode(4) \o <<50, 48>> \o FanPart(1)), W(SwingKey(1))>>]
BreezeShapes == IF Tiny THEN [set : {SepSet}, state : {1}, mode : {0}, temp : {0}, fan : {-1}, swing : {-1, 1}, update : {FALSE}]
                ELSE [set : {PlainSet, SepSet}, state : {-1, 1}, mode : IF Small THEN {0} ELSE {0, 2}, temp : {0}, fan : {-1}, swing : {-1, 1}, update : BOOLEAN]
Reported == {[state |-> 0, mode |-> 4, target |-> 20, fan |-> 1, swing |-> 0, temp10 |-> 250, remote |-> <<88>>]}
             \cup (IF Small THEN {} ELSE {[state |-> 1, mode |-> 4, target |-> 20, fan |-> 1, swing |-> 1, temp10 |-> 250, remote |-> <<88>>]})

\* what a call can be: <<op, arg class, command, thermostat request>>
Calls(c) ==
  IF Cfg(c).api = 1
  THEN {<<"get_state", "ok", NoCmd, NoBreeze>>}
       \cup {<<"control_device", a, [kind |-> "control", on |-> 1, timer |-> Zeros(4)], NoBreeze>> : a \in (IF Tiny THEN {"ok", "reject"} ELSE {"ok", "reject", "open"})}
       \cup (IF Small THEN {} ELSE {<<"create_schedule", a, [kind |-> "createschedule", mask |-> 2, start |-> Zeros(4), end |-> Zeros(4)], NoBreeze>> : a \in {"ok", "reject"}})
  ELSE (IF Tiny THEN {<<"get_shutter_state", "ok", NoCmd, NoBreeze>>}
        ELSE {<<"stop", "ok", [kind |-> "runnerstop"], NoBreeze>>, <<"get_shutter_state", "ok", NoCmd, NoBreeze>>})
       \cup {<<"control_breeze_device", "ok", NoCmd, b>> : b \in BreezeShapes}

VARIABLES inst, written, sessions, nextSess, clock, ndone, eof, last
vars == <<inst, written, sessions, nextSess, clock, ndone, eof, last>>
NoOutcome == [op |-> "none", out |-> "none", ok |-> FALSE, anyEmpty |-> FALSE]

Init ==
  /\ inst = [c \in Clients |-> [Idle(Cfg(c).api, Cfg(c).dev, Cfg(c).key) EXCEPT !.conn = "open"]]
  /\ written = [c \in Clients |-> <<>>]       \* entries [opn, kind, sess, ts, who (dev or key), t0]
  /\ sessions = [c \in Clients |-> <<>>]      \* per operation: the session its login reply carried, or <<>> if none
  /\ nextSess = 1 /\ clock = 0
  /\ ndone = [c \in Clients |-> 0] /\ eof = [c \in Clients |-> FALSE]
  /\ last = [c \in Clients |-> NoOutcome]

Opn(c) == ndone[c] + 1
Entry(c, f) == [opn |-> Opn(c), kind |-> f.kind, sess |-> f.sess, ts |-> clock,
                who |-> IF f.kind = "login1" THEN f.key ELSE f.dev, t0 |-> inst[c].clk0[2]]

Call(c) ==
  /\ inst[c].pc = "idle" /\ ndone[c] < MaxOps
  /\ \E k \in Calls(c) : inst' = [inst EXCEPT ![c] = BeginCall(@, k[1], k[2], k[3], k[4], <<0, clock>>)]
  /\ sessions' = [sessions EXCEPT ![c] = Append(@, <<>>)]
  /\ UNCHANGED <<written, nextSess, clock, ndone, eof, last>>

LoginWrite(c) ==
  /\ inst[c].pc = "login"
  /\ written' = [written EXCEPT ![c] = Append(@, Entry(c, WithCtx(inst[c], LoginCmd(inst[c]), Zeros(4))))]
  /\ inst' = [inst EXCEPT ![c] = OnWrite(@)]
  /\ UNCHANGED <<sessions, nextSess, clock, ndone, eof, last>>

CmdWrite(c) ==
  /\ inst[c].pc = "cmd" /\ Expect(inst[c]).must = "write"
  /\ written' = [written EXCEPT ![c] = Append(@, Entry(c, WithCtx(inst[c], Expect(inst[c]).want, Zeros(4))))]
  /\ inst' = [inst EXCEPT ![c] = OnWrite(@)]
  /\ UNCHANGED <<sessions, nextSess, clock, ndone, eof, last>>

\* in an open region the client may write anything (recorded as an unconstrained frame) ...
FreeWrite(c) ==
  /\ inst[c].pc = "cmd" /\ Expect(inst[c]).must = "open" /\ inst[c].n < MaxCmdFrames(inst[c].op)
  /\ written' = [written EXCEPT ![c] = Append(@, [opn |-> Opn(c), kind |-> "unconstrained", sess |-> Zeros(4), ts |-> clock, who |-> <<>>, t0 |-> 0])]
  /\ inst' = [inst EXCEPT ![c] = OnWrite(@)]
  /\ UNCHANGED <<sessions, nextSess, clock, ndone, eof, last>>

Summaries(c) ==
  IF eof[c] THEN {NoReply}
  ELSE IF inst[c].pc = "waitlogin"
  THEN {NoReply,
        [empty |-> FALSE, carried |-> FALSE, sess |-> Zeros(4), wf |-> FALSE, th |-> NoThermo],
        [empty |-> FALSE, carried |-> TRUE, sess |-> <<nextSess, 0, 0, 0>>, wf |-> FALSE, th |-> NoThermo]}
  ELSE {NoReply, [empty |-> FALSE, carried |-> TRUE, sess |-> Zeros(4), wf |-> FALSE, th |-> NoThermo]}
       \cup {[empty |-> FALSE, carried |-> TRUE, sess |-> Zeros(4), wf |-> TRUE, th |-> t] : t \in Reported}

Reply(c) ==
  /\ inst[c].pc \in {"waitlogin", "waitcmd"}
  /\ \E r \in Summaries(c) :
       /\ inst' = [inst EXCEPT ![c] = OnReply(@, r)]
       /\ eof' = [eof EXCEPT ![c] = @ \/ r.empty]
       /\ nextSess' = IF inst[c].pc = "waitlogin" /\ r.carried THEN nextSess + 1 ELSE nextSess
       /\ sessions' = IF inst[c].pc = "waitlogin" /\ r.carried
                      THEN [sessions EXCEPT ![c][Opn(c)] = r.sess] ELSE sessions
  /\ UNCHANGED <<written, clock, ndone, last>>

Outcomes == [out : {"return", "runtime", "raise"}, ok : BOOLEAN]
Ret(c) ==
  /\ inst[c].pc = "cmd" /\ Expect(inst[c]).must \in {"finish", "open"}
  /\ \E o \in Outcomes :
       /\ (o.ok => o.out = "return")
       /\ FinishClauses(inst[c], o) = <<>>
       /\ last' = [last EXCEPT ![c] = [op |-> inst[c].op, out |-> o.out, ok |-> o.ok, anyEmpty |-> AnyEmpty(inst[c])]]
  /\ inst' = [inst EXCEPT ![c] = OnRet(@)]
  /\ ndone' = [ndone EXCEPT ![c] = @ + 1]
  /\ UNCHANGED <<written, sessions, nextSess, clock, eof>>

Tick == clock < MaxClock /\ clock' = clock + 1 /\ UNCHANGED <<inst, written, sessions, nextSess, ndone, eof, last>>

Next == Tick \/ \E c \in Clients : Call(c) \/ LoginWrite(c) \/ CmdWrite(c) \/ FreeWrite(c) \/ Reply(c) \/ Ret(c)
Spec == Init /\ [][Next]_vars

---------------------------------------------------------------------------
(* C03 *)
IsLogin(x) == x.kind \in LoginKinds
FramesBound == \A c \in Clients : \A k \in 1..Len(written[c]) :
  LET x == written[c][k] IN
  x.kind # "unconstrained" =>
    /\ x.ts >= x.t0 /\ x.ts <= clock                                   \* a current clock reading of this operation
    /\ IF IsLogin(x)
       THEN /\ x.sess = NoSession
            /\ x.who = (IF Cfg(c).api = 1 THEN Cfg(c).key ELSE Cfg(c).dev)  \* login key for type 1, device id for type 2
            /\ (k = 1 \/ written[c][k - 1].opn < x.opn)                      \* a login opens the block of its operation
       ELSE /\ x.who = Cfg(c).dev
            /\ k > 1 /\ written[c][k - 1].opn = x.opn                        \* only after this operation's login
            /\ sessions[c][x.opn] # <<>> /\ x.sess = sessions[c][x.opn]      \* the session of that very login reply
FrameCount == \A c \in Clients : inst[c].op # "none" => inst[c].n <= MaxCmdFrames(inst[c].op)
BlockSizes == \A c \in Clients : \A n \in 1..Len(sessions[c]) :
  Cardinality({k \in 1..Len(written[c]) : written[c][k].opn = n}) <= 4
\* sessions never repeat, so a stale or foreign session can never coincide with the right one
FreshSessions == \A c, d \in Clients : \A m \in 1..Len(sessions[c]) : \A n \in 1..Len(sessions[d]) :
  (sessions[c][m] # <<>> /\ sessions[c][m] = sessions[d][n]) => (c = d /\ m = n)
NoLeak == [][\A c, d \in Clients : c # d /\ (inst'[c] # inst[c] \/ written'[c] # written[c]) =>
               inst'[d] = inst[d] /\ written'[d] = written[d] /\ sessions'[d] = sessions[d]]_vars
AppendOnly == [][\A c \in Clients : Len(written'[c]) >= Len(written[c]) /\ SubSeq(written'[c], 1, Len(written[c])) = written[c]]_vars

(* C09 *)
NoFrameAfterEmptyLogin ==
  [][\A c \in Clients :
       (inst[c].pc = "cmd" /\ inst[c].L.empty /\ OpClass(inst[c].op) \in {"query1", "query2", "simple2", "breeze"})
         => written'[c] = written[c]]_vars
EmptyLoginRaisesRuntime == \A c \in Clients :
  (last[c].op \in (StateQueries \cup Ops2) /\ last[c].anyEmpty /\ last[c].out = "return") => ~last[c].ok
StateQueryOutcome == \A c \in Clients : last[c].op \in StateQueries => last[c].out \in {"return", "runtime"}
(* C16 *)
NeverFalseSuccess == \A c \in Clients :
  (last[c].op = "control_breeze_device" /\ last[c].anyEmpty) => ~(last[c].out = "return" /\ last[c].ok)
(* the specification is implementable: a call that must finish always has an allowed outcome *)
CanAlwaysFinish == \A c \in Clients :
  (inst[c].pc = "cmd" /\ Expect(inst[c]).must = "finish") =>
     \E o \in Outcomes : (o.ok => o.out = "return") /\ FinishClauses(inst[c], o) = <<>>
\* rejected arguments never produce a command frame
NoFrameForRejected ==
  [][\A c \in Clients : (inst[c].pc = "cmd" /\ inst[c].arg = "reject") => written'[c] = written[c]]_vars

\* liveness: with a device that eventually answers (or ends the stream) and a client that keeps taking its steps, every call
\* returns - no operation waits for a reply it never asked for, none loops
ClientSteps(c) == LoginWrite(c) \/ CmdWrite(c) \/ FreeWrite(c) \/ Ret(c)
FairSpec == Spec /\ \A c \in Clients : WF_vars(ClientSteps(c)) /\ WF_vars(Reply(c))
EveryCallReturns == \A c \in Clients : (inst[c].pc # "idle") ~> (inst[c].pc = "idle")
Bound == TRUE
View == <<inst, sessions, nextSess, clock, ndone, eof, last, [c \in Clients |-> Len(written[c])]>>
=============================================================================
