SPECIFICATION Spec
CONSTANTS NObjects = 2
          SharedTable = FALSE
          PortLists <- Lists2
INVARIANT OneHolderPerPort
INVARIANT ForeignApart
INVARIANT RunningMeansListening
INVARIANT ListeningWithoutRunning
INVARIANT CoreAgrees
INVARIANT Restartable
PROPERTY Isolation
PROPERTY StopReleasesAll
PROPERTY FailedStartClean
CHECK_DEADLOCK FALSE
