----------------------------- MODULE LocalTime -----------------------------
(***************************************************************************)
(* Local wall-clock time as the host reports it.  A zone is a non-empty    *)
(* sequence of rules <<utcStart, offset>> sorted by utcStart, the first    *)
(* rule starting at or before every instant of interest; offset is the     *)
(* number of seconds east of UTC in force from utcStart on.  All instants  *)
(* are epoch seconds below 2^31 (TLC integers), i.e. dates before 2038.    *)
(***************************************************************************)
EXTENDS Integers, Sequences, FiniteSets

Day == 86400

\* offset in force at instant t
RECURSIVE OffFrom(_, _, _)
OffFrom(z, t, k) == IF k < Len(z) /\ z[k + 1][1] <= t THEN OffFrom(z, t, k + 1) ELSE z[k][2]
Off(z, t) == OffFrom(z, t, 1)

LocalDay(z, t) == (t + Off(z, t)) \div Day           \* local calendar day number (days since 1970-01-01)
LocalSec(z, t) == (t + Off(z, t)) % Day              \* second of the local day
LocalMin(z, t) == LocalSec(z, t) \div 60
\* weekday of the local date, Monday = 0 (1970-01-01 was a Thursday)
Weekday(z, t) == (LocalDay(z, t) + 3) % 7

Offsets(z) == {z[k][2] : k \in 1..Len(z)}

\* all instants whose local reading is hh:mm:00 on the local date of `now`
ClockCandidates(z, now, hh, mm) ==
  LET d == LocalDay(z, now)
      w == 3600 * hh + 60 * mm
  IN {t \in {d * Day + w - o : o \in Offsets(z)} : LocalDay(z, t) = d /\ LocalSec(z, t) = w}

ExistsToday(z, now, hh, mm) == ClockCandidates(z, now, hh, mm) # {}

\* the reading of instant t as <<hh, mm>>
HM(z, t) == <<LocalSec(z, t) \div 3600, (LocalSec(z, t) \div 60) % 60>>

WellFormedZone(z) ==
  /\ Len(z) >= 1
  /\ \A k \in 1..(Len(z) - 1) : z[k][1] < z[k + 1][1]
=============================================================================
