------------------------------- MODULE Client -------------------------------
(***************************************************************************)
(* L2: one API instance talking to one device over one connection.         *)
(*                                                                         *)
(* The code's only suspension points are the reads of the device's reply,  *)
(* so one code segment between two awaits is one step here.  The module is *)
(* a functional core over an instance record: what the client must do next *)
(* (Expect), and how the record changes when it writes a frame (OnWrite),  *)
(* receives a reply (OnReply) or finishes the call (OnRet).  MC_Client     *)
(* composes two such instances with a nondeterministic device and clock    *)
(* and checks the listed properties on every interleaving; Trace_Client    *)
(* drives the very same operators with the bytes recorded from the real    *)
(* library.                                                                *)
(*                                                                         *)
(* Replies enter the core as summaries                                     *)
(*   [empty, carried, sess, wf, th]                                        *)
(* empty: nothing came (end of stream); carried: at least 12 bytes, i.e. a *)
(* session id is present; sess: those four bytes; wf: well-formed for the  *)
(* decoder the current operation applies; th: decoded thermostat state     *)
(* (meaningful only when wf, in control_breeze_device).                    *)
(***************************************************************************)
EXTENDS Wire, Replies, Remote

NoThermo == [state |-> 0, mode |-> 1, target |-> 0, fan |-> 0, swing |-> 0, temp10 |-> 0, remote |-> <<>>]
NoReply == [empty |-> TRUE, carried |-> FALSE, sess |-> Zeros(4), wf |-> FALSE, th |-> NoThermo]
NoSet == [id |-> <<>>, onoff |-> 0, waves |-> <<>>]
\* thermostat request: -1 / 0 = "not given" (state -1, mode 0, temp 0, fan -1, swing -1)
NoBreeze == [set |-> NoSet, state |-> -1, mode |-> 0, temp |-> 0, fan |-> -1, swing |-> -1, update |-> FALSE]
NoCmd == [kind |-> "none"]

Type1Simple == {"control_device", "set_auto_shutdown", "set_device_name", "get_schedules", "delete_schedule", "create_schedule"}
Type2Simple == {"stop", "set_position"}
Ops1 == {"get_state"} \cup Type1Simple
Ops2 == Type2Simple \cup {"get_shutter_state", "get_breeze_state", "control_breeze_device"}
Ops == Ops1 \cup Ops2
OpClass(op) ==
  CASE op = "get_state" -> "query1"
    [] op \in Type1Simple -> "simple1"
    [] op \in Type2Simple -> "simple2"
    [] op \in {"get_shutter_state", "get_breeze_state"} -> "query2"
    [] op = "control_breeze_device" -> "breeze"
StateQueries == {"get_state", "get_shutter_state", "get_breeze_state"}
\* beyond the listed statements: both client classes share one interface; what a device type cannot do is refused at once
\* (NotImplementedError, nothing written, no login).  `stop` is defined once for both.
Supported(api, op) == IF api = 1 THEN op \in Ops1 \cup {"stop"} ELSE op \in Ops2

\* an instance at rest
Idle(api, dev, key) ==
  [api |-> api, dev |-> dev, key |-> key,
   conn |-> "none",            \* "none" never connected, "open", "closed"
   pc |-> "idle",              \* "idle", "login" (login frame due), "waitlogin", "cmd" (frame or finish due), "waitcmd"
   op |-> "none", arg |-> "ok", \* arg: "ok" accepted arguments, "reject" must raise, "open" not constrained
   cmd |-> NoCmd,              \* the command frame of a simple operation (kind + its fields, no sess/ts/dev)
   b |-> NoBreeze,
   L |-> NoReply, R |-> <<>>,  \* login reply summary, command reply summaries of this operation
   n |-> 0,                    \* command frames written in this operation
   free |-> FALSE,             \* TRUE once the rest of this operation is not constrained (open region)
   clk0 |-> <<0, 0>>]          \* clock reading (floor, limbs) when the operation started

---------------------------------------------------------------------------
(* thermostat control: merge of request and reported state                  *)
MainRequested(st) ==
  \/ st.b.state # -1 \/ st.b.mode # 0 \/ st.b.temp # 0 \/ st.b.fan # -1
  \/ (st.b.swing # -1 /\ ~SeparateSwing(st.b.set))
SwingCommandDue(st) == SeparateSwing(st.b.set) /\ st.b.swing # -1 /\ ~st.b.update
Effective(b, rep) ==
  [state |-> IF b.state # -1 THEN b.state ELSE rep.state,
   mode |-> IF b.mode # 0 THEN b.mode ELSE rep.mode,
   temp |-> IF b.temp # 0 THEN b.temp ELSE rep.target,
   fan |-> IF b.fan # -1 THEN b.fan ELSE rep.fan,
   swing |-> IF SeparateSwing(b.set) THEN 0 ELSE IF b.swing # -1 THEN b.swing ELSE rep.swing]
StatusCmd(e) == [kind |-> "breezestatus", state |-> e.state, mode |-> e.mode, temp |-> e.temp, fan |-> e.fan, swing |-> e.swing]
IrCmd(entry) == [kind |-> "breezecmd", payload |-> Payload(entry)]

---------------------------------------------------------------------------
(* what the client must do next when pc = "cmd"                              *)
(*  must = "write": write the frame `want`                                   *)
(*  must = "finish": end the call; fin says how                              *)
(*      "runtime"  raise RuntimeError                                        *)
(*      "raise"    raise (any exception): rejected arguments                 *)
(*      "query"    return the decoded state / RuntimeError, by the reply     *)
(*      "generic"  return a response, successful iff the last reply came     *)
(*      "tail"     as generic, RuntimeError also allowed when nothing came   *)
(*  must = "open": not constrained                                           *)
Write(cmd, why) == [must |-> "write", want |-> cmd, fin |-> "-", why |-> why]
Finish(fin, why) == [must |-> "finish", want |-> NoCmd, fin |-> fin, why |-> why]
Unconstrained(why) == [must |-> "open", want |-> NoCmd, fin |-> "-", why |-> why]
LastR(st) == st.R[Len(st.R)]

ExpectBreeze(st) ==
  IF MainRequested(st) THEN
    CASE st.n = 0 -> Write([kind |-> "getstate2"], "read-current-state")
      [] st.n = 1 ->
           IF st.R[1].empty THEN Finish("runtime", "empty-reply")
           ELSE IF ~st.R[1].wf THEN Unconstrained("malformed-state-reply")
           ELSE LET eff == Effective(st.b, st.R[1].th) IN
                IF st.b.update THEN Write(StatusCmd(eff), "status-update")
                ELSE LET res == Resolve(st.b.set, eff @@ [prev |-> st.R[1].th.state]) IN
                     (CASE res.kind = "unsupported" -> Finish("runtime", "unsupported-mode")
                        [] res.kind = "open" -> Unconstrained("no-stored-code")
                        [] res.kind = "code" -> Write(IrCmd(res.entry), "main-command"))
      [] st.n = 2 ->
           IF st.R[2].empty THEN Finish("runtime", "empty-reply")
           ELSE IF SwingCommandDue(st)
                THEN LET rs == ResolveSwing(st.b.set, st.b.swing) IN
                     IF rs.kind = "code" THEN Write(IrCmd(rs.entry), "swing-command") ELSE Unconstrained("no-swing-code")
                ELSE Finish("generic", "plan-complete")
      [] OTHER -> Finish("tail", "plan-complete")
  ELSE IF SwingCommandDue(st) THEN
    IF st.n = 0
    THEN LET rs == ResolveSwing(st.b.set, st.b.swing) IN
         IF rs.kind = "code" THEN Write(IrCmd(rs.entry), "swing-command") ELSE Unconstrained("no-swing-code")
    ELSE Finish("tail", "plan-complete")
  ELSE Finish("runtime", "nothing-actionable")

Expect(st) ==
  LET cls == OpClass(st.op) IN
  IF st.free THEN Unconstrained("open-region")
  ELSE IF st.L.empty /\ (cls \in {"query1", "query2", "simple2", "breeze"}) THEN Finish("runtime", "empty-login")
  ELSE IF st.arg = "reject" /\ st.n = 0 THEN Finish("raise", "rejected-arguments")
  ELSE IF ~st.L.carried THEN Unconstrained("no-session-in-login-reply")
  ELSE IF st.arg = "open" THEN Unconstrained("open-arguments")
  ELSE CASE cls = "query1" -> IF st.n = 0 THEN Write([kind |-> "getstate1"], "query") ELSE Finish("query", "plan-complete")
         [] cls = "query2" -> IF st.n = 0 THEN Write([kind |-> "getstate2"], "query") ELSE Finish("query", "plan-complete")
         [] cls \in {"simple1", "simple2"} -> IF st.n = 0 THEN Write(st.cmd, "command") ELSE Finish("generic", "plan-complete")
         [] cls = "breeze" -> ExpectBreeze(st)

\* the login frame of an instance (sess/ts are filled by the caller)
LoginCmd(st) == IF st.api = 1 THEN [kind |-> "login1", key |-> st.key] ELSE [kind |-> "login2", dev |-> st.dev]
\* a command with the context of this operation
WithCtx(st, cmd, ts) ==
  IF cmd.kind = "login1" THEN cmd @@ [sess |-> NoSession, ts |-> ts]
  ELSE IF cmd.kind = "login2" THEN cmd @@ [sess |-> NoSession, ts |-> ts]
  ELSE cmd @@ [sess |-> st.L.sess, ts |-> ts, dev |-> st.dev]

---------------------------------------------------------------------------
(* outcomes: [out, ok]  out in {"return", "runtime", "raise"}; ok = the      *)
(* response's `successful` (FALSE when nothing was returned)                 *)
AnyEmpty(st) == st.L.empty \/ \E k \in 1..Len(st.R) : st.R[k].empty
\* clauses (names of violated rules) for finishing now with outcome o
FinishClauses(st, o) ==
  LET ex == Expect(st)
      query == st.op \in StateQueries
  IN
     \* C09: a state query returns or raises RuntimeError - nothing else - whatever came
     (IF query /\ o.out = "raise" THEN <<"C09:state-query-raised-other-exception">> ELSE <<>>)
  \o \* C16: never success after an empty reply
     (IF st.op = "control_breeze_device" /\ AnyEmpty(st) /\ o.out = "return" /\ o.ok THEN <<"C16:success-after-empty-reply">> ELSE <<>>)
  \o \* C09: a returned response is successful iff its reply came
     (IF o.out = "return" /\ st.pc = "cmd" /\ Len(st.R) > 0 /\ o.ok # ~LastR(st).empty THEN <<"C09:successful-iff-reply-nonempty">> ELSE <<>>)
  \o (CASE ex.must = "open" -> <<>>
        [] ex.must = "write" ->
             IF st.op = "control_breeze_device" THEN <<"C16:call-ended-before-" \o ex.why>>
             ELSE IF st.n = 0 /\ OpClass(st.op) \in {"simple1", "simple2"} THEN <<"C02:accepted-arguments-produced-no-frame", "C03:frame-missing">>
             ELSE <<"C03:frame-missing">>
        [] ex.must = "finish" ->
             CASE ex.fin = "runtime" ->
                    IF o.out = "runtime" THEN <<>>
                    ELSE IF ex.why = "empty-login" THEN <<"C09:empty-login-must-raise-runtimeerror">>
                    ELSE IF ex.why = "nothing-actionable" THEN <<"C16:nothing-actionable-must-raise-runtimeerror">>
                    ELSE IF ex.why = "unsupported-mode" THEN <<"C15:unsupported-mode-must-be-refused">>
                    ELSE <<"C16:empty-reply-must-not-succeed">>
               [] ex.fin = "raise" -> IF o.out \in {"raise", "runtime"} THEN <<>> ELSE <<"C02:rejected-arguments-must-raise">>
               [] ex.fin = "query" ->
                    IF LastR(st).empty THEN (IF o.out = "runtime" THEN <<>> ELSE <<"C09:empty-state-reply-must-raise-runtimeerror">>)
                    ELSE IF LastR(st).wf THEN (IF o.out = "return" THEN <<>> ELSE <<"C08:well-formed-state-reply-not-returned">>)
                    ELSE <<>>
               [] ex.fin = "generic" ->
                    IF o.out = "return" THEN <<>>
                    \* a listing that is not made of whole, in-domain schedule records is outside every statement
                    ELSE IF st.op = "get_schedules" /\ ~LastR(st).empty /\ ~LastR(st).wf THEN <<>>
                    ELSE <<"C09:generic-operation-must-return-a-response">>
                         \o (IF st.op = "get_schedules" THEN <<"C10:whole-record-listing-not-returned">> ELSE <<>>)
               [] ex.fin = "tail" ->
                    IF o.out = "return" \/ (o.out = "runtime" /\ LastR(st).empty) THEN <<>> ELSE <<"C16:swing-command-outcome">>)

\* clauses for writing a frame now when none is due
UnexpectedWriteClauses(st) ==
  LET ex == Expect(st) IN
  IF ex.must # "finish" THEN <<>>
  ELSE CASE ex.why = "empty-login" -> <<"C09:frame-after-empty-login">>
         [] ex.why = "rejected-arguments" -> <<"C02:frame-after-rejected-arguments">>
         [] ex.why = "empty-reply" -> <<"C16:frame-after-empty-reply">>
         [] ex.why = "nothing-actionable" -> <<"C16:frame-although-nothing-actionable">>
         [] ex.why = "unsupported-mode" -> <<"C15:frame-for-unsupported-mode">>
         [] OTHER -> IF st.op = "control_breeze_device" THEN <<"C16:extra-frame", "C03:extra-frame">> ELSE <<"C03:extra-frame">>

---------------------------------------------------------------------------
(* transitions of the instance record                                       *)
BeginCall(st, op, arg, cmd, b, clk0) ==
  [st EXCEPT !.pc = "login", !.op = op, !.arg = arg, !.cmd = cmd, !.b = b, !.L = NoReply, !.R = <<>>, !.n = 0,
             !.free = FALSE, !.clk0 = clk0]
OnWrite(st) ==
  IF st.pc = "login" THEN [st EXCEPT !.pc = "waitlogin"]
  ELSE [st EXCEPT !.pc = "waitcmd", !.n = @ + 1,
                  !.free = @ \/ Expect(st).must = "open"]
OnReply(st, r) ==
  IF st.pc = "waitlogin" THEN [st EXCEPT !.pc = "cmd", !.L = r]
  ELSE [st EXCEPT !.pc = "cmd", !.R = Append(@, r)]
OnRet(st) == [st EXCEPT !.pc = "idle", !.op = "none"]

\* frames an operation writes after its login: 1 for simple operations and queries, 1..3 for thermostat control
MaxCmdFrames(op) == IF op = "control_breeze_device" THEN 3 ELSE 1
=============================================================================
