------------------------------ MODULE MC_Bridges ------------------------------
(***************************************************************************)
(* Several bridge objects in one process on one host, each with its own     *)
(* port list (lists may overlap), start() refined into one step per port,   *)
(* start() cancelled between two binds, stop() at any time, foreign sockets. *)
(* The host's port table is the only thing the objects share: a port is     *)
(* held by at most one socket.  What one object does must not touch what    *)
(* another one holds (the hazard behind the seeded changes that share a     *)
(* transports table between objects).                                       *)
(* Reuses the life-cycle operators of Bridge.tla; every object's view of    *)
(* "occupied" is derived from the host table.                               *)
(***************************************************************************)
EXTENDS Bridge, TLC
CONSTANTS NObjects, PortLists,     \* PortLists[o] = configured ports of object o, in order
          SharedTable              \* FALSE: the design.  TRUE: the hazard - stop() looks sockets up by port number in a table
                                   \* shared by all objects (negative model: TLC must exhibit the violation of Isolation)
Objects == 1..NObjects
Lists2 == <<(<<1, 2>>), (<<2, 3>>)>>                 \* two objects, one shared port
Lists3 == <<(<<1, 2, 3>>), (<<3, 1>>), (<<2>>)>>       \* three objects, every port wanted twice
AllPorts == UNION {{PortLists[o][k] : k \in 1..Len(PortLists[o])} : o \in Objects}

VARIABLES bound,      \* per object: ports it listens on
          closing,    \* per object: ports it closed, released at the next loop cycle
          running,    \* per object: the running flag
          at,         \* per object: 0 no start in progress, k = about to bind its k-th port
          opened,     \* per object: ports the start in progress has bound so far
          foreign,    \* ports held by foreign sockets
          outcome,    \* per object: how its last start ended: "none", "ok", "raised", "cancelled"
          dirty       \* per object: a start was cancelled since the last stop (sockets may be open although it does not run)
vars == <<bound, closing, running, at, opened, foreign, outcome, dirty>>

Held == foreign \cup UNION {bound[o] \cup closing[o] : o \in Objects}
\* the life-cycle record of object o as Bridge.tla sees it
Rec(o) == [ports |-> PortLists[o], running |-> running[o], bound |-> bound[o], closing |-> closing[o],
           occupied |-> Held \ (bound[o] \cup closing[o]), limbo |-> {}]

Init == /\ bound = [o \in Objects |-> {}] /\ closing = [o \in Objects |-> {}] /\ running = [o \in Objects |-> FALSE]
        /\ at = [o \in Objects |-> 0] /\ opened = [o \in Objects |-> {}] /\ foreign = {}
        /\ outcome = [o \in Objects |-> "none"] /\ dirty = [o \in Objects |-> FALSE]

StartBegin(o) == /\ at[o] = 0 /\ ~running[o]
                 /\ at' = [at EXCEPT ![o] = 1] /\ opened' = [opened EXCEPT ![o] = {}] /\ outcome' = [outcome EXCEPT ![o] = "none"]
                 /\ UNCHANGED <<bound, closing, running, foreign, dirty>>
StartPort(o) ==
  /\ at[o] \in 1..Len(PortLists[o])
  /\ LET p == PortLists[o][at[o]] IN
       IF p \in Held
       THEN \* the bind fails: close what THIS start opened, raise
            /\ bound' = [bound EXCEPT ![o] = @ \ opened[o]] /\ closing' = [closing EXCEPT ![o] = @ \cup opened[o]]
            /\ at' = [at EXCEPT ![o] = 0] /\ opened' = [opened EXCEPT ![o] = {}] /\ outcome' = [outcome EXCEPT ![o] = "raised"]
       ELSE /\ bound' = [bound EXCEPT ![o] = @ \cup {p}] /\ opened' = [opened EXCEPT ![o] = @ \cup {p}]
            /\ at' = [at EXCEPT ![o] = @ + 1] /\ UNCHANGED <<closing, outcome>>
  /\ UNCHANGED <<running, foreign, dirty>>
StartDone(o) == /\ at[o] = Len(PortLists[o]) + 1
                /\ at' = [at EXCEPT ![o] = 0] /\ running' = [running EXCEPT ![o] = TRUE] /\ opened' = [opened EXCEPT ![o] = {}]
                /\ outcome' = [outcome EXCEPT ![o] = "ok"] /\ UNCHANGED <<bound, closing, foreign, dirty>>
\* the task running start() is cancelled while it waits between two binds: no clean-up runs, the flag is untouched
StartCancelled(o) == /\ at[o] \in 1..Len(PortLists[o])
                     /\ at' = [at EXCEPT ![o] = 0] /\ opened' = [opened EXCEPT ![o] = {}]
                     /\ outcome' = [outcome EXCEPT ![o] = "cancelled"] /\ dirty' = [dirty EXCEPT ![o] = TRUE]
                     /\ UNCHANGED <<bound, closing, running, foreign>>
PortsOf(o) == {PortLists[o][k] : k \in 1..Len(PortLists[o])}
Stop(o) == /\ at[o] = 0
           /\ IF SharedTable
              THEN /\ closing' = [x \in Objects |-> IF x = o THEN closing[x] \cup bound[x] ELSE closing[x] \cup (bound[x] \cap PortsOf(o))]
                   /\ bound' = [x \in Objects |-> IF x = o THEN {} ELSE bound[x] \ PortsOf(o)]
              ELSE /\ closing' = [closing EXCEPT ![o] = @ \cup bound[o]] /\ bound' = [bound EXCEPT ![o] = {}]
           /\ running' = [running EXCEPT ![o] = FALSE] /\ dirty' = [dirty EXCEPT ![o] = FALSE]
           /\ UNCHANGED <<at, opened, foreign, outcome>>
Cycle == /\ \E o \in Objects : closing[o] # {}
         /\ closing' = [o \in Objects |-> {}] /\ UNCHANGED <<bound, running, at, opened, foreign, outcome, dirty>>
Occupy(p) == p \notin Held /\ foreign' = foreign \cup {p} /\ UNCHANGED <<bound, closing, running, at, opened, outcome, dirty>>
Free(p) == p \in foreign /\ foreign' = foreign \ {p} /\ UNCHANGED <<bound, closing, running, at, opened, outcome, dirty>>

ObjectStep(o) == StartBegin(o) \/ StartPort(o) \/ StartDone(o) \/ StartCancelled(o) \/ Stop(o)
Next == (\E o \in Objects : ObjectStep(o)) \/ Cycle \/ \E p \in AllPorts : Occupy(p) \/ Free(p)
Spec == Init /\ [][Next]_vars

---------------------------------------------------------------------------
Ports(o) == {PortLists[o][k] : k \in 1..Len(PortLists[o])}
\* a port has one holder
OneHolderPerPort == \A o1, o2 \in Objects : o1 # o2 => (bound[o1] \cup closing[o1]) \cap (bound[o2] \cup closing[o2]) = {}
ForeignApart == \A o \in Objects : foreign \cap (bound[o] \cup closing[o]) = {}
\* C17: an object reports running only while it listens on all its ports; between calls, a running object listens on all of them
RunningMeansListening == \A o \in Objects : running[o] => bound[o] = Ports(o)
\* ... and an object that listens on all its ports without running is one whose start was cancelled (or is in progress)
ListeningWithoutRunning == \A o \in Objects : (at[o] = 0 /\ ~running[o] /\ bound[o] # {}) => dirty[o]
\* isolation: a step of one object changes nothing another object holds or reports
Isolation == [][\A o \in Objects : ObjectStep(o) =>
                  \A x \in Objects \ {o} : bound'[x] = bound[x] /\ closing'[x] = closing[x] /\ running'[x] = running[x]]_vars
\* stop releases everything the object holds, whatever happened before (failed, cancelled, successful start)
StopReleasesAll == [][\A o \in Objects : Stop(o) => bound'[o] = {} /\ ~running'[o] /\ bound[o] \subseteq closing'[o]]_vars
\* a start that raised left nothing of its own behind
FailedStartClean == [][\A o \in Objects : (at[o] # 0 /\ at'[o] = 0 /\ outcome'[o] = "raised") => bound'[o] = bound[o] \ opened[o]]_vars
\* the functional core agrees with the stepwise refinement: from a clean object, AfterStart predicts the outcome of a start
\* that nobody interferes with
CoreAgrees == \A o \in Objects :
  (at[o] = 0 /\ ~running[o] /\ bound[o] = {} /\ closing[o] = {}) =>
     (StartSucceeds(Rec(o)) <=> \A k \in 1..Len(PortLists[o]) : PortLists[o][k] \notin Held /\ \A j \in 1..(k - 1) : PortLists[o][j] # PortLists[o][k])
\* after stop and one loop cycle with nobody else holding its ports, an object can start again
Restartable == \A o \in Objects :
  (at[o] = 0 /\ ~running[o] /\ bound[o] = {} /\ Ports(o) \cap Held = {} /\ \A j, k \in 1..Len(PortLists[o]) : j # k => PortLists[o][j] # PortLists[o][k])
     => StartSucceeds(Rec(o))
=============================================================================
