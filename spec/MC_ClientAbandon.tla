--------------------------- MODULE MC_ClientAbandon ---------------------------
(***************************************************************************)
(* A NEGATIVE model: the caller abandons an operation while it waits for a  *)
(* reply (task cancellation, asyncio.wait_for around the call) and then     *)
(* goes on using the same API object.  The device answers the abandoned      *)
(* request late; nothing in the library discards that answer, so the NEXT    *)
(* operation reads it as the reply to its own login.  TLC is expected to     *)
(* VIOLATE SessionOfThisLogin and exhibit the history.  The listed property  *)
(* C03 speaks about operations that run to completion and says nothing about *)
(* abandoned ones; the drivers therefore let the device stay silent after an *)
(* abandoned request (harness/tcpdrive.py, `cancel_at`).  The run is          *)
(* registered with expect_violation so that the hazard stays documented by a *)
(* machine-found counterexample; with AnswersLate = FALSE (the drivers'       *)
(* assumption) the same model must satisfy the invariant.                     *)
(*                                                                           *)
(* The same hazard from the other side: the LIBRARY gives up on a slow       *)
(* device (a read timeout of its own).  LibraryGivesUp = "keeps": it raises  *)
(* and keeps the connection - the device's late answer meets the next        *)
(* operation, TLC must find the violation (this one IS inside C03: no caller *)
(* did anything unusual; the conformance side shows it as the event Late     *)
(* followed by a frame written before its own reply came).  "hangsup": it    *)
(* closes the connection before raising - answers to a dead socket are lost, *)
(* the invariant holds.  "never": the pinned library (it waits).             *)
(***************************************************************************)
EXTENDS Naturals, Sequences, TLC
CONSTANTS MaxOps, AnswersLate, LibraryGivesUp
VARIABLES pc,        \* "idle", "waitlogin", "waitcmd"
          opn,       \* operations begun so far
          pipe,      \* the device's answers on their way to the client: <<operation, kind, session>>
          owed,      \* answers the device still owes to requests whose caller has gone: <<operation, kind, session>>
          sent,      \* command frames the device received: <<operation, session carried>>
          issued,    \* issued[n] = session the device issued for the login of operation n (0 = none yet)
          nextSess
vars == <<pc, opn, pipe, owed, sent, issued, nextSess>>
Init == pc = "idle" /\ opn = 0 /\ pipe = <<>> /\ owed = <<>> /\ sent = <<>> /\ issued = <<>> /\ nextSess = 1

Begin == /\ pc = "idle" /\ opn < MaxOps
         /\ opn' = opn + 1 /\ pc' = "waitlogin"                       \* the login frame goes out; the device prepares its answer
         /\ issued' = Append(issued, nextSess) /\ nextSess' = nextSess + 1
         /\ owed' = Append(owed, <<opn + 1, "login", nextSess>>) /\ UNCHANGED <<pipe, sent>>
\* the device answers the oldest request it has not answered yet
Answer == owed # <<>> /\ pipe' = Append(pipe, Head(owed)) /\ owed' = Tail(owed) /\ UNCHANGED <<pc, opn, sent, issued, nextSess>>
\* the client reads whatever comes next on the stream as the reply it is waiting for
ReadLogin == /\ pc = "waitlogin" /\ pipe # <<>>
             /\ sent' = Append(sent, <<opn, Head(pipe)[3]>>)             \* the command frame carries the session just read
             /\ owed' = Append(owed, <<opn, "ack", 0>>)
             /\ pipe' = Tail(pipe) /\ pc' = "waitcmd" /\ UNCHANGED <<opn, issued, nextSess>>
ReadAck == pc = "waitcmd" /\ pipe # <<>> /\ pipe' = Tail(pipe) /\ pc' = "idle" /\ UNCHANGED <<opn, owed, sent, issued, nextSess>>
\* the caller gives up while waiting; the object is used again afterwards
Abandon == /\ pc \in {"waitlogin", "waitcmd"} /\ pc' = "idle"
           /\ owed' = IF AnswersLate THEN owed ELSE <<>>                 \* (drivers' assumption: the device never answers that request)
           /\ pipe' = IF AnswersLate THEN pipe ELSE <<>>
           /\ UNCHANGED <<opn, sent, issued, nextSess>>
\* the library's own patience ends (a device that is slow, not silent: its answer is on the way or still owed)
GiveUp == /\ LibraryGivesUp # "never" /\ pc \in {"waitlogin", "waitcmd"} /\ pc' = "idle"
          /\ owed' = IF LibraryGivesUp = "hangsup" THEN <<>> ELSE owed      \* whatever is sent to a closed socket is lost;
          /\ pipe' = IF LibraryGivesUp = "hangsup" THEN <<>> ELSE pipe      \* the next operation runs on a new connection
          /\ UNCHANGED <<opn, sent, issued, nextSess>>
Next == Begin \/ Answer \/ ReadLogin \/ ReadAck \/ Abandon \/ GiveUp
Spec == Init /\ [][Next]_vars
\* what C03 demands of completed operations: a command frame carries the session issued for the login of ITS operation
SessionOfThisLogin == \A k \in 1..Len(sent) : sent[k][2] = issued[sent[k][1]]
=============================================================================
