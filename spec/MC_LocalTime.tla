----------------------------- MODULE MC_LocalTime -----------------------------
(* C11 on the model: synthetic zones with a fixed offset, a quarter-hour       *)
(* offset, a forward change (gap) and a backward change (repeated hour) inside *)
(* the day under test; every minute of that day, several "now" instants.       *)
EXTENDS LocalTime, TLC
D0 == 20000 * Day                       \* some UTC midnight (2024-10-04)
Zones == <<
  << <<0, 0>> >>,                                         \* UTC
  << <<0, 20700>> >>,                                     \* +05:45
  << <<0, -39600>> >>,                                    \* -11:00
  << <<0, 50400>> >>,                                     \* +14:00
  << <<0, 7200>>, <<D0 + 0, 10800>> >>,                   \* +02:00 -> +03:00 at 02:00 local (gap 02:00..02:59)
  << <<0, 10800>>, <<D0 - 3600, 7200>> >>,                \* +03:00 -> +02:00 at 02:00 local (01:00..01:59 twice)
  << <<0, 37800>>, <<D0 + 50400, 39600>> >>,              \* +10:30 -> +11:00 (Lord Howe style half-hour change)
  << <<0, -18000>>, <<D0 + 25200, -14400>> >>             \* -05:00 -> -04:00 at 02:00 local
>>
Nows == {D0 - 7200, D0 + 1, D0 + 43200, D0 + 86399 - 7200}
VARIABLES zi, now, mn
Init == zi = 0 /\ now = 0 /\ mn = -1
Next == \/ zi = 0 /\ zi' \in 1..Len(Zones) /\ UNCHANGED <<now, mn>>
        \/ zi > 0 /\ now = 0 /\ now' \in Nows /\ UNCHANGED <<zi, mn>>
        \/ now > 0 /\ mn = -1 /\ mn' \in 0..1439 /\ UNCHANGED <<zi, now>>
Spec == Init /\ [][Next]_<<zi, now, mn>>
Ready == mn >= 0
Z == Zones[zi]
C == ClockCandidates(Z, now, mn \div 60, mn % 60)
RoundTrip == Ready => \A t \in C : HM(Z, t) = <<mn \div 60, mn % 60>> /\ LocalDay(Z, t) = LocalDay(Z, now)
AtMostTwo == Ready => Cardinality(C) <= 2
FixedZonesAlwaysOne == Ready /\ Len(Z) = 1 => Cardinality(C) = 1
\* completeness: any instant of today's local date that reads hh:mm:00 is a candidate
Complete == Ready => \A o \in Offsets(Z) :
              LET t == LocalDay(Z, now) * Day + 60 * mn - o IN
                (LocalDay(Z, t) = LocalDay(Z, now) /\ LocalSec(Z, t) = 60 * mn) => t \in C
WeekdayStep == Ready => Weekday(Z, now + Day) \in {(Weekday(Z, now) + 1) % 7, Weekday(Z, now), (Weekday(Z, now) + 2) % 7}
ASSUME \A k \in 1..Len(Zones) : WellFormedZone(Zones[k])
ASSUME Weekday(<< <<0, 0>> >>, 0) = 3                 \* 1970-01-01 was a Thursday
ASSUME Weekday(<< <<0, 0>> >>, 1790553600) = 0        \* 2026-09-28 is a Monday
=============================================================================
