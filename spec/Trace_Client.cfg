SPECIFICATION Spec
INVARIANT Done
CHECK_DEADLOCK FALSE
