SPECIFICATION Spec
INVARIANT Done
INVARIANT FrameCountBounded
CHECK_DEADLOCK FALSE
