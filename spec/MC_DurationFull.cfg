SPECIFICATION Spec
CONSTANT Minutes <- AllMinutes
INVARIANT Laws
CHECK_DEADLOCK FALSE
