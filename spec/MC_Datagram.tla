----------------------------- MODULE MC_Datagram -----------------------------
(* Round trips of the broadcast layouts over boundary devices and agreement    *)
(* with the 16 real broadcasts shipped in tests/testresources.                  *)
EXTENDS Datagram, Captures, TLC
T(s) == s
NameA == <<77, 121>>                                              \* "My"
Name32 == [k \in 1..32 |-> 97 + (k % 26)]
NameHe == <<215, 169, 215, 156, 215, 149, 215, 157>>
Common == [id : {<<0, 0, 0>>, <<170, 187, 204>>}, key : {<<0>>, <<255>>}, name : {NameA, Name32, NameHe},
           ip : {<<0, 0, 0, 0>>, <<192, 168, 1, 33>>, <<255, 255, 255, 255>>}, mac : {<<18, 161, 162, 26, 188, 26>>, <<255, 0, 255, 0, 255, 0>>}]
Heaters == {c @@ x : c \in Common, x \in [state : {0, 1}, watts : {0, 2600, 65535}, remaining : {0, 5400, 86399}, auto : {0, 10800}]}
Thermos == {c @@ x : c \in Common, x \in [state : {0, 1}, mode : {1, 5}, target : {16, 255}, fan : {0, 3}, swing : {0, 1}, temp10 : {0, 281, 65535},
                                          remote : {<<69, 76, 69, 67, 55, 48, 50, 50>>}]}
Shutters == {c @@ x : c \in Common, x \in [position : {0, 50, 100}, direction : Directions]}
Bases(n) == {Zeros(n), [k \in 1..n |-> (k * 53 + 7) % 256]}

VARIABLES fam, d
Init == fam = "root" /\ d = [x |-> 0]
Next == \/ fam = "root" /\ fam' \in {"heater", "plug", "thermo", "shutter"} /\ UNCHANGED d
        \/ fam \in {"heater", "plug"} /\ d = [x |-> 0] /\ d' \in Heaters /\ UNCHANGED fam
        \/ fam = "thermo" /\ d = [x |-> 0] /\ d' \in Thermos /\ UNCHANGED fam
        \/ fam = "shutter" /\ d = [x |-> 0] /\ d' \in Shutters /\ UNCHANGED fam
Spec == Init /\ [][Next]_<<fam, d>>
Ready == d # [x |-> 0]
CodeFor(f) == CASE f = "heater" -> <<3, 23>> [] f = "plug" -> <<1, 168>> [] f = "thermo" -> <<14, 1>> [] f = "shutter" -> <<12, 1>>

RoundTrip == Ready => \A base \in Bases(FamLen(fam)) :
  LET b == EncodeDevice(base, fam, CodeFor(fam), d)
      x == DecodeDevice(fam, b)
      on == d.state = 1 \/ fam = "shutter"
  IN /\ Gate(b) /\ WellFormedFor(fam, b) /\ ModelOf(CodeOf(b)).fam = fam
     /\ x.id = HexLower(d.id) /\ x.key = HexLower(d.key) /\ x.ip = IpText(d.ip) /\ x.mac = MacText(d.mac) /\ x.name = d.name
     /\ x.cls = ClassOf(fam)
     /\ (fam \in {"heater", "plug"} => x.state = d.state /\ x.watts = (IF on THEN d.watts ELSE 0))
     /\ (fam = "heater" => x.remaining = HHMMSS(IF on THEN d.remaining ELSE 0) /\ x.auto = HHMMSS(d.auto))
     /\ (fam = "thermo" => x.state = d.state /\ x.mode = d.mode /\ x.target = d.target /\ x.fan = d.fan /\ x.swing = d.swing
                           /\ x.temp10 = d.temp10 /\ x.remote = d.remote)
     /\ (fam = "shutter" => x.position = d.position /\ x.direction = d.direction)

\* the real broadcasts
Boiler == <<77, 121, 32, 83, 119, 105, 116, 99, 104, 101, 114, 32, 66, 111, 105, 108, 101, 114>>     \* "My Switcher Boiler"
ASSUME \A c \in BcType1 : Gate(c) /\ LE16At(c, 2) = Len(c) /\ ModelOf(CodeOf(c)).fam \in {"heater", "plug"}
                           /\ WellFormedFor(ModelOf(CodeOf(c)).fam, c)
ASSUME \A c \in BcType1 : LET x == DecodeDevice(ModelOf(CodeOf(c)).fam, c) IN
          /\ x.name = Boiler /\ x.ip = IpText(<<192, 168, 1, 33>>) /\ x.mac = MacText(<<18, 161, 162, 26, 188, 26>>)
          /\ x.watts \in {0, 2600} /\ (x.state = 1 <=> x.watts = 2600)
ASSUME LET x == DecodeDevice("heater", Cap_Bc_on_v4) IN x.type = "V4" /\ x.remaining = HHMMSS(5400) /\ x.auto = HHMMSS(10800) /\ x.id = HexLower(<<170, 170, 170>>)
ASSUME LET x == DecodeDevice("plug", Cap_Bc_on_power_plug) IN x.type = "POWER_PLUG" /\ x.cls = "SwitcherPowerPlug" /\ x.watts = 2600
ASSUME Gate(Cap_BcBreeze) /\ WellFormedFor("thermo", Cap_BcBreeze) /\ ModelOf(CodeOf(Cap_BcBreeze)).name = "BREEZE"
ASSUME LET x == DecodeDevice("thermo", Cap_BcBreeze) IN
          /\ x.ip = IpText(<<192, 168, 50, 77>>) /\ x.mac = MacText(<<188, 255, 77, 74, 86, 121>>)
          /\ x.temp10 = 281 /\ x.state = 0 /\ x.mode = 2 /\ x.target = 24 /\ x.fan = 0 /\ x.swing = 0
          /\ x.remote = <<69, 76, 69, 67, 55, 48, 50, 50>>
          \* the device's default name ends in the last two bytes of its MAC address
          /\ SubSeq(x.name, Len(x.name) - 3, Len(x.name)) = <<53, 54, 55, 57>> /\ SubSeq(x.mac, 13, 17) = <<53, 54, 58, 55, 57>>
ASSUME Gate(Cap_BcRunner) /\ WellFormedFor("shutter", Cap_BcRunner) /\ ModelOf(CodeOf(Cap_BcRunner)).name = "RUNNER_MINI"
ASSUME LET x == DecodeDevice("shutter", Cap_BcRunner) IN
          /\ x.ip = IpText(<<192, 168, 50, 98>>) /\ x.mac = MacText(<<148, 185, 126, 1, 30, 66>>) /\ x.position = 24 /\ x.direction = <<0, 0>>
          /\ SubSeq(x.name, Len(x.name) - 3, Len(x.name)) = <<49, 69, 52, 50>> /\ SubSeq(x.mac, 13, 17) = <<49, 69, 58, 52, 50>>
=============================================================================
