-------------------------------- MODULE Bridge --------------------------------
(***************************************************************************)
(* L2: the UDP bridge (C06 C07 C17).                                       *)
(* Functional core over a life-cycle record                                *)
(*   [ports, running, bound, closing, occupied, limbo]                     *)
(* ports: configured ports in order; bound: ports the bridge listens on;   *)
(* closing: closed by the bridge, released one loop cycle later; occupied: *)
(* ports held by a foreign socket.  MC_Bridge refines start() into one     *)
(* step per port and adds the datagram queues; Trace_Bridge applies the    *)
(* same operators to the recorded history.                                  *)
(***************************************************************************)
EXTENDS Naturals, Sequences, FiniteSets

NewBridge(ports) == [ports |-> ports, running |-> FALSE, bound |-> {}, closing |-> {}, occupied |-> {}, limbo |-> {}]
PortSet(B) == {B.ports[k] : k \in 1..Len(B.ports)}
ValidPort(p) == p >= 0 /\ p <= 65535          \* binding any other number fails (with an error that is not an OSError)
Busy(B, p) == p \in B.occupied \/ p \in B.bound \/ p \in B.closing \/ ~ValidPort(p)
\* binding happens port by port in configured order; a port listed twice is busy the second time
BusyAt(B, k) == Busy(B, B.ports[k]) \/ \E j \in 1..(k - 1) : B.ports[j] = B.ports[k]
FailsAt(B) == LET ks == {k \in 1..Len(B.ports) : BusyAt(B, k)} IN
              IF ks = {} THEN 0 ELSE CHOOSE k \in ks : \A j \in ks : k <= j
StartSucceeds(B) == FailsAt(B) = 0
\* the intended design: a start that fails raises and leaves nothing listening that it opened itself
\* (what it opened is closed again and released after one loop cycle)
AfterStart(B) ==
  IF StartSucceeds(B) THEN [B EXCEPT !.bound = @ \cup PortSet(B), !.running = TRUE]
  ELSE [B EXCEPT !.closing = @ \cup {B.ports[j] : j \in 1..(FailsAt(B) - 1)},
                 \* ports listed after the failing one: a bridge that binds its ports one by one never touched them, one that
                 \* binds them all at once has opened and closed them - until the loop has cycled they may or may not be bindable
                 !.limbo = {B.ports[j] : j \in (FailsAt(B) + 1)..Len(B.ports)} \ (B.occupied \cup B.bound \cup B.closing)]
\* start() cancelled (task cancellation, a timeout around it) after k binds: what it opened stays open until stop() - the
\* clean-up of a failed start does not run for a cancellation - and the flag is untouched
\* (k is what was OBSERVED to be listening afterwards: a bridge that cleans up after a cancellation as it does after a failure
\* shows k = 0.  Ports the cancelled start may have opened and closed on the way are in limbo until the loop has cycled.)
AfterCancelledStart(B, k) ==
  LET n == IF FailsAt(B) = 0 THEN k ELSE IF k < FailsAt(B) THEN k ELSE FailsAt(B) - 1
      kept == {B.ports[j] : j \in 1..(IF n > Len(B.ports) THEN Len(B.ports) ELSE n)}
  IN [B EXCEPT !.bound = @ \cup kept,
               !.limbo = PortSet(B) \ (kept \cup B.occupied \cup B.bound \cup B.closing)]
AfterStop(B) == [B EXCEPT !.closing = @ \cup B.bound, !.bound = {}, !.running = FALSE]
AfterCycle(B) == [B EXCEPT !.closing = {}, !.limbo = {}]
\* beyond the listed statements: an error the OS reports on a socket (ICMP port unreachable, ...) is logged and changes nothing
AfterNetError(B) == B
Listening(B) == B.bound
Bindable(B, p) == ~Busy(B, p)

\* delivery rule per datagram class (C06 / C07):
\*   "foreign"  not a Switcher broadcast      -> nothing at all happens
\*   "unknown"  gate passed, unknown model    -> no device, a warning, no exception
\*   "valid"    well-formed broadcast         -> exactly one callback with the decoded device
\*   "other"    gate passed, not well-formed  -> not constrained
Classes == {"foreign", "unknown", "valid", "other"}
MustDeliver(cls) == cls = "valid"
MayDeliver(cls) == cls \in {"valid", "other"}
=============================================================================
