------------------------------ MODULE TraceKit ------------------------------
(***************************************************************************)
(* Plumbing shared by all trace specifications: the recorded events, the   *)
(* verdict list, the branch-tag counters and the verdict file.             *)
(* Every event is a record with at least                                   *)
(*   tid : scenario id, k : index of the event inside its scenario,        *)
(*   ev  : event name.                                                     *)
(* Verdicts are total: an event the specification cannot explain is put on *)
(* `bad` together with the names of the failing clauses and validation     *)
(* goes on with the next event.                                            *)
(***************************************************************************)
EXTENDS Naturals, Sequences, TLC, Json, IOUtils

Events == ndJsonDeserialize(IOEnv.TRACE_FILE)
NEvents == Len(Events)

MaxBad == 400
AddBad(bad, e, why) ==
  IF Len(bad) < MaxBad
  THEN Append(bad, [tid |-> e.tid, k |-> e.k, ev |-> e.ev, why |-> why])
  ELSE bad
Dropped(bad, n) == IF Len(bad) < MaxBad THEN n ELSE n + 1

Bump(tags, t) == IF t \in DOMAIN tags THEN [tags EXCEPT ![t] = @ + 1] ELSE tags @@ (t :> 1)
RECURSIVE BumpAll(_, _)
BumpAll(tags, ts) == IF ts = <<>> THEN tags ELSE BumpAll(Bump(tags, Head(ts)), Tail(ts))

WriteVerdict(bad, dropped, tags) ==
  JsonSerialize(IOEnv.VERDICT_FILE, [n |-> NEvents, bad |-> bad, dropped |-> dropped, tags |-> tags])

\* clause list helpers: a clause list is a sequence of strings
Clause(cond, name) == IF cond THEN <<>> ELSE <<name>>
Has(e, f) == f \in DOMAIN e
=============================================================================
