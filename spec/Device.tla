-------------------------------- MODULE Device --------------------------------
(***************************************************************************)
(* L2: an abstract Switcher device (the environment of client and bridge). *)
(* Its state is what the protocol lets a client change and a broadcast     *)
(* report.  Apply(dev, f) is the effect of a decoded client frame f;       *)
(* BroadcastOf / StateReplyOf say what the device then reports.  This is   *)
(* the model behind the end-to-end behaviours "TCP operation, then the     *)
(* next UDP broadcast" (Switcher.tla); the numbers a real device would     *)
(* choose (power drawn, timer when none is given) are parameters of the    *)
(* model, stated here.                                                     *)
(***************************************************************************)
EXTENDS Wire, Datagram

DefaultAutoOff == 3600
PowerWhenOn == 2600

NewDevice(fam, code, id, key, name, ip, mac) ==
  [fam |-> fam, code |-> code, id |-> id, key |-> key, name |-> name, ip |-> ip, mac |-> mac,
   power |-> 0, remaining |-> 0, onFor |-> 0, autoOff |-> DefaultAutoOff, slots |-> <<>>,
   position |-> 0, direction |-> <<0, 0>>,
   th |-> [state |-> 0, mode |-> 4, target |-> 24, fan |-> 1, swing |-> 0, temp10 |-> 250, remote |-> <<69, 76, 69, 67, 55, 48, 50, 50>>]]

Secs(b4) == IF Fits31(b4) THEN Nat31(b4) ELSE 2147483647
Least(a, b) == IF a < b THEN a ELSE b
\* the effect of a client frame the device accepted (f = Wire!DecodeFrame of what arrived)
Apply(dev, f) ==
  CASE f.kind = "control" ->
         IF f.on = 1
         THEN [dev EXCEPT !.power = 1, !.remaining = Least(86399, IF Secs(f.timer) > 0 THEN Secs(f.timer) ELSE dev.autoOff),
                          !.onFor = IF dev.power = 1 THEN @ ELSE 0]
         ELSE [dev EXCEPT !.power = 0, !.remaining = 0, !.onFor = 0]
    [] f.kind = "autooff" -> [dev EXCEPT !.autoOff = Least(86399, Secs(f.secs))]
    [] f.kind = "setname" -> [dev EXCEPT !.name = StripNul(f.name)]
    [] f.kind = "createschedule" -> [dev EXCEPT !.slots = Append(@, <<f.mask>> \o f.start \o f.end)]
    [] f.kind = "delschedule" -> [dev EXCEPT !.slots = SelectSeq(@, LAMBDA x : TRUE)]     \* slot bookkeeping is C10's business
    [] f.kind = "runnerpos" -> [dev EXCEPT !.position = f.pos, !.direction = <<0, 0>>]
    [] f.kind = "runnerstop" -> [dev EXCEPT !.direction = <<0, 0>>]
    [] f.kind = "breezestatus" ->
         [dev EXCEPT !.th = [@ EXCEPT !.state = f.state, !.mode = f.mode, !.target = f.temp, !.fan = f.fan, !.swing = f.swing]]
    [] OTHER -> dev
\* time passes: the timer counts down and the device switches off when it reaches zero
Elapse(dev, s) ==
  IF dev.fam \in {"heater", "plug"} /\ dev.power = 1
  THEN IF dev.remaining > s THEN [dev EXCEPT !.remaining = @ - s, !.onFor = Least(86399, @ + s)]
       ELSE [dev EXCEPT !.power = 0, !.remaining = 0, !.onFor = 0]
  ELSE dev

\* what a broadcast of this device must decode to (the fields the bridge reports)
Reported(dev) ==
  LET on == dev.power = 1 IN
  CASE dev.fam = "heater" -> [state |-> dev.power, watts |-> IF on THEN PowerWhenOn ELSE 0,
                              remaining |-> HHMMSS(IF on THEN dev.remaining ELSE 0), auto |-> HHMMSS(dev.autoOff), name |-> dev.name]
    [] dev.fam = "plug" -> [state |-> dev.power, watts |-> IF on THEN PowerWhenOn ELSE 0, name |-> dev.name]
    [] dev.fam = "shutter" -> [position |-> dev.position, direction |-> dev.direction, name |-> dev.name]
    [] dev.fam = "thermo" -> [state |-> dev.th.state, mode |-> dev.th.mode, target |-> dev.th.target, fan |-> dev.th.fan,
                              swing |-> dev.th.swing, temp10 |-> dev.th.temp10, remote |-> dev.th.remote, name |-> dev.name]
\* the broadcast the device sends (placed into any base string of the family's length)
BroadcastOf(dev, base) ==
  LET common == [id |-> dev.id, key |-> dev.key, name |-> dev.name, ip |-> dev.ip, mac |-> dev.mac] IN
  CASE dev.fam \in {"heater", "plug"} ->
         EncodeDevice(base, dev.fam, dev.code, common @@ [state |-> dev.power, watts |-> IF dev.power = 1 THEN PowerWhenOn ELSE 0,
                                                          remaining |-> dev.remaining, auto |-> dev.autoOff])
    [] dev.fam = "shutter" -> EncodeDevice(base, "shutter", dev.code, common @@ [position |-> dev.position, direction |-> dev.direction])
    [] dev.fam = "thermo" -> EncodeDevice(base, "thermo", dev.code, common @@ dev.th)

\* what the device answers to a state query over TCP (fields placed into any base string long enough), and what the client
\* must then report (C08, end to end).  Unlike a broadcast, a state reply is reported as it is: no OFF normalisation.
StateReplyOf(dev, base) ==
  CASE dev.fam \in {"heater", "plug"} ->
         EncodeState1(base, [state |-> dev.power, watts |-> IF dev.power = 1 THEN PowerWhenOn ELSE 0,
                             left |-> dev.remaining, on |-> dev.onFor, auto |-> dev.autoOff])
    [] dev.fam = "shutter" -> EncodeShutter(base, [position |-> dev.position, direction |-> dev.direction])
    [] dev.fam = "thermo" -> EncodeThermo(base, dev.th)
Readback(dev) ==
  CASE dev.fam \in {"heater", "plug"} ->
         [state |-> dev.power, watts |-> IF dev.power = 1 THEN PowerWhenOn ELSE 0,
          left |-> HHMMSS(dev.remaining), on |-> HHMMSS(dev.onFor), auto |-> HHMMSS(dev.autoOff)]
    [] dev.fam = "shutter" -> [position |-> dev.position, direction |-> dev.direction]
    [] dev.fam = "thermo" -> [state |-> dev.th.state, mode |-> dev.th.mode, target |-> dev.th.target, fan |-> dev.th.fan,
                              swing |-> dev.th.swing, temp10 |-> dev.th.temp10, remote |-> dev.th.remote]
\* the two views of one device state - a broadcast heard by the bridge and a state reply read by the API object - agree on
\* everything both of them carry
ViewsAgree(dev) ==
  LET r == Reported(dev) q == Readback(dev) IN
  CASE dev.fam = "heater" -> r.state = q.state /\ r.watts = q.watts /\ r.remaining = q.left /\ r.auto = q.auto
    [] dev.fam = "plug" -> r.state = q.state /\ r.watts = q.watts
    [] dev.fam = "shutter" -> r.position = q.position /\ r.direction = q.direction
    [] dev.fam = "thermo" -> r.state = q.state /\ r.mode = q.mode /\ r.target = q.target /\ r.fan = q.fan /\ r.swing = q.swing
                             /\ r.temp10 = q.temp10 /\ r.remote = q.remote
=============================================================================
