SPECIFICATION Spec
INVARIANT RoundTrip
INVARIANT AtMostTwo
INVARIANT FixedZonesAlwaysOne
INVARIANT Complete
INVARIANT WeekdayStep
CHECK_DEADLOCK FALSE
