SPECIFICATION Spec
INVARIANT Done
INVARIANT PowerAndTimerAgree
CHECK_DEADLOCK FALSE
