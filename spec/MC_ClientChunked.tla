--------------------------- MODULE MC_ClientChunked ---------------------------
(***************************************************************************)
(* A NEGATIVE model: the stream between device and client is a byte stream. *)
(* The library reads "the reply" with one read() of up to 1024 bytes and     *)
(* takes whatever has arrived as the whole reply.  If the network hands a    *)
(* reply over in two pieces (Splits = TRUE) the first piece is taken for the *)
(* reply and the second for the NEXT reply: from then on every exchange on   *)
(* the connection is shifted by one piece, and an operation reads a piece of *)
(* an earlier answer as the reply to its own login.  TLC is expected to      *)
(* VIOLATE SessionOfThisLogin.  The listed statements speak of "the reply"   *)
(* as what the read returns, so this hazard is outside them; the drivers     *)
(* deliver every reply in one piece (an assumption listed in the evidence of *)
(* every client check), and with Splits = FALSE the same model satisfies the *)
(* invariant - that is the configuration the drivers realise.                *)
(***************************************************************************)
EXTENDS Naturals, Sequences, TLC
CONSTANTS MaxOps, Splits
VARIABLES pc,        \* "idle", "waitlogin", "waitcmd"
          opn,       \* operations begun so far
          pipe,      \* pieces on their way to the client: <<operation, kind, session carried (0 = none)>>
          sent,      \* command frames the device received: <<operation, session carried>>
          issued,    \* issued[n] = session the device issued for the login of operation n
          nextSess
vars == <<pc, opn, pipe, sent, issued, nextSess>>
Init == pc = "idle" /\ opn = 0 /\ pipe = <<>> /\ sent = <<>> /\ issued = <<>> /\ nextSess = 1

\* the device's answer travels whole, or in two pieces of which only the first holds the session bytes
Pieces(op, kind, sess) == {<< <<op, kind, sess>> >>} \cup (IF Splits THEN {<< <<op, kind, sess>>, <<op, "rest", 0>> >>} ELSE {})
Begin == /\ pc = "idle" /\ opn < MaxOps /\ opn' = opn + 1 /\ pc' = "waitlogin"
         /\ issued' = Append(issued, nextSess) /\ nextSess' = nextSess + 1
         /\ \E ps \in Pieces(opn + 1, "login", nextSess) : pipe' = pipe \o ps
         /\ UNCHANGED sent
\* the client takes the next piece for the reply it is waiting for
ReadLogin == /\ pc = "waitlogin" /\ pipe # <<>>
             /\ sent' = Append(sent, <<opn, Head(pipe)[3]>>)             \* the command frame carries whatever session that piece held
             /\ \E ps \in Pieces(opn, "ack", 0) : pipe' = Tail(pipe) \o ps
             /\ pc' = "waitcmd" /\ UNCHANGED <<opn, issued, nextSess>>
ReadAck == pc = "waitcmd" /\ pipe # <<>> /\ pipe' = Tail(pipe) /\ pc' = "idle" /\ UNCHANGED <<opn, sent, issued, nextSess>>
Next == Begin \/ ReadLogin \/ ReadAck
Spec == Init /\ [][Next]_vars
SessionOfThisLogin == \A k \in 1..Len(sent) : sent[k][2] = issued[sent[k][1]]
=============================================================================
