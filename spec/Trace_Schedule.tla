---------------------------- MODULE Trace_Schedule ----------------------------
(***************************************************************************)
(* code -> spec for C11, C12, C13, C14: recorded calls of the schedule      *)
(* tools are judged against Schedule / LocalTime.                           *)
(*  Mask    form in {"single","set","list","tuple"}, days: sequence of      *)
(*          weekdays 0..6 as passed (duplicates kept), raised, out: text     *)
(*  Days    mask: integer, raised, out: sequence of weekdays                 *)
(*  Dur     s: start minute, es: end minutes, outs: texts (one per end)      *)
(*  Clock   zone, now, text, raised, out: 4 bytes, back: text decoded again  *)
(*  Unclock zone, t4: 4 bytes, raised, out: text                             *)
(*  Next    zone, now, start: text "HH:MM", days: sequence of weekdays,      *)
(*          text: the display text                                           *)
(***************************************************************************)
EXTENDS Schedule, TraceKit

VARIABLES i, bad, dropped, tags

SeqToSet(q) == {q[k] : k \in 1..Len(q)}
NoDup(q) == Cardinality(SeqToSet(q)) = Len(q)

\* (the statement fixes the mask's two hex digits, not their case)
JudgeMask(e) ==
  LET S == SeqToSet(e.days)
      accepted == e.days # <<>> /\ NoDup(e.days)
  IN IF accepted
     THEN [why |-> Clause(~e.raised, "C12:valid-days-rejected")
                   \o (IF e.raised THEN <<>> ELSE Clause(LowerSeq(e.out) = MaskText(S), "C12:mask-text")),
           tag |-> "mask-" \o e.form]
     ELSE [why |-> Clause(e.raised, "C12:empty-or-duplicate-days-must-raise"), tag |-> "mask-reject-" \o e.form]

JudgeDays(e) ==
  IF e.mask < 2 \/ e.mask > 254
  THEN [why |-> Clause(e.raised, "C12:mask-outside-2..254-must-raise"), tag |-> "days-reject"]
  ELSE IF e.mask % 2 = 0
  THEN [why |-> Clause(~e.raised, "C12:valid-mask-rejected")
                \o (IF e.raised THEN <<>> ELSE Clause(NoDup(e.out) /\ SeqToSet(e.out) = DaysOf(e.mask), "C12:decoded-days")),
        tag |-> "days"]
  ELSE [why |-> <<>>, tag |-> "days-odd-open"]      \* odd masks inside 3..253: not constrained by the statement

JudgeDur(e) ==
  LET wrong == {k \in 1..Len(e.es) : e.outs[k] # DurationText(e.s, e.es[k])} IN
  [why |-> Clause(wrong = {}, "C14:duration") \o Clause(Len(e.outs) = Len(e.es), "C14:arity"),
   tag |-> IF \E k \in 1..Len(e.es) : e.es[k] < e.s THEN "dur-wrap" ELSE "dur"]

\* instants after 2038-01-19 do not fit TLC's integers: such events count seconds from a base instant that is a whole number
\* of weeks after the epoch (weekday, day boundaries and offsets are unaffected), given as two 16-bit limbs <<high, low>>
BaseOf(e) == IF "base" \in DOMAIN e THEN e.base ELSE <<0, 0>>
\* (RelFits / Rel: Schedule.tla)

JudgeClock(e) ==
  IF StrictClock(e.text)
  THEN LET C == ClockCandidates(e.zone, e.now, ClockHH(e.text), ClockMM(e.text)) IN
       IF C = {} THEN [why |-> <<>>, tag |-> "clock-gap-open"]
       ELSE [why |-> Clause(~e.raised, "C11:valid-clock-rejected")
                     \o (IF e.raised THEN <<>> ELSE
                           Clause(Len(e.out) = 4 /\ IsByteSeq(e.out) /\ RelFits(e.out, BaseOf(e)) /\ Rel(e.out, BaseOf(e)) \in C, "C11:encoded-instant")
                        \o Clause(e.back = e.text, "C11:round-trip")),
             tag |-> (IF Cardinality(C) = 2 THEN "clock-repeated-hour" ELSE IF Len(e.zone) > 1 THEN "clock-dst-day" ELSE "clock")
                    \o (IF BaseOf(e) # <<0, 0>> THEN "-after-2038" ELSE "")]
  ELSE IF LenientClock(e.text) THEN [why |-> <<>>, tag |-> "clock-lenient-open"]
  ELSE [why |-> Clause(e.raised, "C11:malformed-clock-must-raise"), tag |-> "clock-malformed"]

JudgeUnclock(e) ==
  LET hm == HM(e.zone, Rel(e.t4, BaseOf(e))) IN
  [why |-> Clause(~e.raised, "C11:decode-raised")
           \o (IF e.raised THEN <<>> ELSE Clause(e.out = TwoDigits(hm[1]) \o <<Colon>> \o TwoDigits(hm[2]), "C11:decoded-clock")),
   tag |-> IF Len(e.zone) > 1 THEN "unclock-dst-day" ELSE "unclock"]

JudgeNext(e) ==
  LET D == SeqToSet(e.days)
      hm == ParseClock(e.start)
  IN IF hm = <<>> THEN [why |-> <<>>, tag |-> "next-start-spelling-open"]
     ELSE
     LET wd == Weekday(e.zone, e.now)
         k == NextRunK(wd, LocalMin(e.zone, e.now), 60 * hm[1] + hm[2], D)
         WantAt(t) == LET w == Weekday(e.zone, t)
                          kk == NextRunK(w, LocalMin(e.zone, t), 60 * hm[1] + hm[2], D)
                      IN IF kk = 0 THEN <<0>> ELSE IF kk = 1 THEN <<1>> ELSE <<2, NextRunDay(w, kk)>>
         want == WantAt(e.now)
         got == DayTerm(e.text)
         \* a call takes time: when the clock moved on while it ran (e.now2: the instant it returned, less than a minute
         \* later), the text is right if it is the answer for the minute the call began in or for the one it ended in -
         \* not a mixture of the two
     IN [why |-> Clause(got = want \/ ("now2" \in DOMAIN e /\ got = WantAt(e.now2)), "C13:day-term")
                 \o Clause(D = {} \/ Len(got) < 2 \/ got[2] \in D, "C13:named-weekday-selected")
                 \* the text is computed FROM the schedule: the caller's day set is the same set after the call
                 \o Clause("after" \notin DOMAIN e \/ SeqToSet(e.after) = D, "C13:day-set-changed-by-the-call"),
         tag |-> (IF D = {} THEN "next-nodays" ELSE IF k = 0 THEN "next-today" ELSE IF k = 1 THEN "next-tomorrow"
                  ELSE IF k = 7 THEN "next-week-ahead" ELSE "next-weekday") \o (IF Len(e.start) # 5 THEN "-short-spelling" ELSE "")]

Judge(e) ==
  CASE e.ev = "Mask" -> JudgeMask(e)
    [] e.ev = "Days" -> JudgeDays(e)
    [] e.ev = "Dur" -> JudgeDur(e)
    [] e.ev = "Clock" -> JudgeClock(e)
    [] e.ev = "Unclock" -> JudgeUnclock(e)
    [] e.ev = "Next" -> JudgeNext(e)
    [] OTHER -> [why |-> <<"unknown-event">>, tag |-> "unknown"]

Init == i = 1 /\ bad = <<>> /\ dropped = 0 /\ tags = <<>>
Next ==
  /\ i <= NEvents
  /\ LET e == Events[i] r == Judge(e) IN
       /\ bad' = IF r.why = <<>> THEN bad ELSE AddBad(bad, e, r.why)
       /\ dropped' = IF r.why = <<>> THEN dropped ELSE Dropped(bad, dropped)
       /\ tags' = Bump(tags, r.tag)
  /\ i' = i + 1
Spec == Init /\ [][Next]_<<i, bad, dropped, tags>>
Done == i = NEvents + 1 => WriteVerdict(bad, dropped, tags)
=============================================================================
