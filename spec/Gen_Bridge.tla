------------------------------ MODULE Gen_Bridge ------------------------------
(***************************************************************************)
(* spec -> code: MC_Bridge with a history variable.  TLC simulates          *)
(* behaviours of the refined bridge model (start() one step per port,       *)
(* foreign sockets, datagram queues, stop, loop cycles) and prints each     *)
(* behaviour as one JSON line: the actions taken and, after every action,   *)
(* the projection the real bridge must show (running flag, ports listening, *)
(* ports being released, deliveries per port).  harness/replay.py steps the *)
(* real SwitcherBridge through exactly these interleavings.                 *)
(***************************************************************************)
EXTENDS MC_Bridge, Json, SequencesExt

CONSTANT Depth
VARIABLE env
gvars == <<vars, env>>

Proj == [running |-> B'.running, bound |-> SetToSeq(B'.bound), closing |-> SetToSeq(B'.closing), occupied |-> SetToSeq(B'.occupied),
         at |-> at', raised |-> raised',
         delivered |-> [p \in Ports |-> delivered'[p]], queued |-> [p \in Ports |-> Len(queue'[p])]]
Log(a, p, cls) == env' = Append(env, [a |-> a, p |-> p, cls |-> cls, exp |-> Proj])

GInit == Init /\ env = <<>>
\* The statement speaks about the bridge between calls, not about the inside of start(): a correct bridge may bind its ports
\* one per loop cycle (as the pinned commit does), all at once, or with further awaits in between.  So the environment
\* (foreign sockets, datagrams, loop cycles) acts only while no start is in progress, and harness/replay.py compares the
\* projection only then.  (MC_Bridge itself keeps every interleaving: that is model checking of the design.)
GNext ==
  \/ StartBegin /\ Log("StartBegin", 0, "")
  \* steps that let the event loop run also let it finish pending releases: they only follow a Cycle
  \/ B.closing = {} /\ StartPort /\ Log("StartPort", at, "")
  \/ B.closing = {} /\ StartDone /\ Log("StartDone", 0, "")
  \/ Stop /\ Log("Stop", 0, "")
  \/ at = 0 /\ Cycle /\ Log("Cycle", 0, "")
  \/ at = 0 /\ \E p \in Ports : \/ Occupy(p) /\ Log("Occupy", p, "")
                                \/ Free(p) /\ Log("Free", p, "")
                                \/ B.closing = {} /\ Receive(p) /\ Log("Receive", p, Head(queue[p]).cls)
                                \/ \E c \in Classes : Send(p, c) /\ Log("Send", p, c)
GSpec == GInit /\ [][GNext]_gvars

\* print the behaviour when it has reached the simulation depth
Emit == TLCGet("level") < Depth \/ PrintT(<<"BEHAVIOUR", ToJson(env)>>)
=============================================================================
