---------------------------- MODULE Trace_Switcher ----------------------------
(***************************************************************************)
(* code -> spec, end to end: the real API object changes a (simulated)      *)
(* device over TCP, the device broadcasts its state, the real bridge        *)
(* decodes the broadcast.  The device model (Device.tla) sits in the middle: *)
(*  Dev    fam, code, id, key, name, ip, mac      the device is created      *)
(*  Op     op, a {...}          what the user asked the API object to do     *)
(*  Frame  b                    a command frame the device received          *)
(*  Elapse s                    s seconds pass at the device                 *)
(*  Bcast  b                    the broadcast the simulator sent (validated: *)
(*                              it must report exactly the model's state)    *)
(*  Seen   g {...}              the device object the bridge handed over     *)
(*  Reply  b                    the state reply the simulator sent to a      *)
(*                              state query (validated like Bcast)           *)
(*  Read   op, r {...}          the response object the state query returned *)
(* The user's request is applied to the model through Wire's encoding of the *)
(* arguments, so "what the bridge reports = what the user asked for" is      *)
(* checked across encoder (C02), device model and decoder (C05).             *)
(***************************************************************************)
EXTENDS Device, TraceKit

VARIABLES i, bad, dropped, tags, dev, devf, want
Cl(c, name) == Clause(c, name)
NoDev == NewDevice("heater", <<0, 0>>, Zeros(3), Zeros(1), <<>>, Zeros(4), Zeros(6))
NoWant == [kind |-> "none"]

\* the frame the request must produce (without session / timestamp / device id)
Intent(e) ==
  LET a == e.a IN
  CASE e.op = "control_device" -> [kind |-> "control", on |-> a.on, timer |-> TimerField(a.minutes)]
    [] e.op = "set_auto_shutdown" -> [kind |-> "autooff", secs |-> AutoOffField(a.secs)]
    [] e.op = "set_device_name" -> [kind |-> "setname", name |-> NameField(a.cps)]
    [] e.op = "set_position" -> [kind |-> "runnerpos", pos |-> a.pos]
    [] e.op = "stop" -> [kind |-> "runnerstop"]
    [] e.op \in {"get_state", "get_shutter_state", "get_breeze_state"} -> [kind |-> "query"]
    [] e.op = "update_state" -> [kind |-> "breezestatus", state |-> a.state, mode |-> a.mode, temp |-> a.temp, fan |-> a.fan, swing |-> a.swing]
    [] OTHER -> NoWant
Strip(f) == [k \in (DOMAIN f) \ {"sess", "ts", "dev"} |-> f[k]]

\* what a state query returned against what the device holds (Device!Readback)
SameRead(fam, r, q) ==
  IF fam \in {"heater", "plug"}
  THEN    Cl(r.state = q.state, "C08:e2e-state") \o Cl(r.watts = q.watts, "C08:e2e-power") \o Cl(AmpsOk(q.watts, r.amps10), "C08:e2e-current")
       \o Cl(r.left = q.left, "C08:e2e-time-left") \o Cl(r.on = q.on, "C08:e2e-time-on") \o Cl(r.auto = q.auto, "C08:e2e-auto-shutdown")
  ELSE IF fam = "shutter"
  THEN Cl(r.position = q.position, "C08:e2e-position") \o Cl(r.direction = q.direction, "C08:e2e-direction")
  ELSE    Cl(r.state = q.state /\ r.mode = q.mode /\ r.target = q.target /\ r.fan = q.fan /\ r.swing = q.swing, "C08:e2e-thermostat-settings")
       \o Cl(r.temp10 = q.temp10, "C08:e2e-temperature") \o Cl(r.remote = q.remote, "C08:e2e-remote-id")
ReplyOk(fam, b) == CASE fam \in {"heater", "plug"} -> WellFormedState1(b) [] fam = "shutter" -> WellFormedShutter(b) [] OTHER -> WellFormedThermo(b)
ReplyMeans(fam, b) ==
  CASE fam \in {"heater", "plug"} -> DecodeState1(b)
    [] fam = "shutter" -> DecodeShutter(b)
    [] OTHER -> DecodeThermo(b)

SameReport(fam, g, r) ==
     Cl(g.name = r.name, "C05:e2e-name")
  \o (IF fam \in {"heater", "plug"} THEN Cl(g.state = r.state, "C05:e2e-state") \o Cl(g.watts = r.watts, "C05:e2e-power") ELSE <<>>)
  \o (IF fam = "heater" THEN Cl(g.remaining = r.remaining, "C05:e2e-remaining-time") \o Cl(g.auto = r.auto, "C05:e2e-auto-shutdown") ELSE <<>>)
  \o (IF fam = "shutter" THEN Cl(g.position = r.position, "C05:e2e-position") \o Cl(g.direction = r.direction, "C05:e2e-direction") ELSE <<>>)
  \o (IF fam = "thermo" THEN Cl(g.state = r.state /\ g.mode = r.mode /\ g.target = r.target /\ g.fan = r.fan /\ g.swing = r.swing, "C05:e2e-thermostat-settings") ELSE <<>>)

\* dev follows what the user REQUESTED (the expectation); devf follows the frames that actually arrived (it only serves to
\* validate the simulator, which cannot know the request)
R(why, tag, d2, w2) == [why |-> why, tag |-> tag, dev |-> d2, devf |-> devf, want |-> w2]
RF(why, tag, d2, f2, w2) == [why |-> why, tag |-> tag, dev |-> d2, devf |-> f2, want |-> w2]
Step(e) ==
  CASE e.ev = "Dev" -> LET d0 == NewDevice(e.fam, e.code, e.id, e.key, e.name, e.ip, e.mac) IN RF(<<>>, "dev-" \o e.fam, d0, d0, NoWant)
    [] e.ev = "Op" -> R(<<>>, "op-" \o e.op, dev, Intent(e))
    [] e.ev = "Frame" ->
         LET f == DecodeFrame(e.b) IN
         IF f.kind \in {"getstate1", "getstate2"} /\ want.kind # "query" /\ dev.fam # "thermo"
         THEN R(<<"C03:e2e-unrequested-state-query">>, "frame-unrequested-query", dev, want)
         ELSE IF f.kind \in {"login1", "login2", "getstate1", "getstate2", "getschedules"} THEN R(<<>>, "frame-" \o f.kind, dev, want)
         ELSE IF want.kind = "query" THEN RF(<<"C03:e2e-command-frame-during-a-state-query">>, "frame-in-query", dev, Apply(devf, f), want)
         ELSE IF want.kind = "none" THEN RF(<<"C03:e2e-unrequested-command-frame">>, "frame-unrequested", dev, Apply(devf, f), want)
         ELSE RF(Cl(f.kind # "malformed" /\ Strip(f) = want, "C02:e2e-frame-decodes-to-the-request")
                 \o Cl(f.kind = "malformed" \/ f.dev = dev.id, "C03:e2e-device-id"),
                 "frame-" \o want.kind, Apply(dev, want @@ [dev |-> dev.id]), Apply(devf, f), NoWant)
    [] e.ev = "OpRaised" ->     \* every request of these scenarios has accepted arguments and a device that answers
         IF want.kind = "query" THEN R(<<"C08:e2e-state-query-raised">>, "query-raised", dev, NoWant)
         ELSE R(<<"C02:e2e-accepted-request-raised">>, "op-raised", dev, NoWant)
    [] e.ev = "Reply" ->        \* the simulator's state reply must say exactly what the device model holds
         LET ok == ReplyOk(dev.fam, e.b) IN
         R(Cl(ok, "harness:simulator-state-reply-malformed")
           \o (IF ok /\ ReplyMeans(dev.fam, e.b) # Readback(devf) THEN <<"harness:simulator-state-reply-differs-from-the-device-model">> ELSE <<>>),
           "state-reply", dev, want)
    [] e.ev = "Read" ->
         R(Cl(want.kind = "query", "harness:read-without-query")
           \o SameRead(dev.fam, e.r, Readback(devf))
           \o (IF Readback(devf) = Readback(dev) THEN <<>> ELSE <<"C02:e2e-device-state-differs-from-the-request">>),
           "read-" \o dev.fam \o (IF dev.fam \in {"heater", "plug"} THEN (IF dev.power = 1 THEN "-on" ELSE "-off") ELSE ""), dev, NoWant)
    [] e.ev = "Elapse" -> RF(<<>>, "elapse", Elapse(dev, e.s), Elapse(devf, e.s), want)
    [] e.ev = "Bcast" ->
         LET ok == Gate(e.b) /\ WellFormedFor(dev.fam, e.b) /\ CodeOf(e.b) = dev.code
             d == DecodeDevice(dev.fam, e.b) r == Reported(devf)
         IN R(Cl(ok, "harness:simulator-broadcast-malformed")
              \o (IF ok THEN (IF SameReport(dev.fam, d, r) = <<>> THEN <<>> ELSE <<"harness:simulator-broadcast-differs-from-the-device-model">>) ELSE <<>>),
              "bcast", dev, want)
    [] e.ev = "Seen" -> R(SameReport(dev.fam, e.g, Reported(devf))       \* the decoder is judged against what the device really holds
                          \o (IF Reported(devf) = Reported(dev) THEN <<>> ELSE <<"C02:e2e-device-state-differs-from-the-request">>)
                          \o Cl(e.g.id = HexLower(dev.id) /\ e.g.key = HexLower(dev.key), "C05:e2e-identity"),
                          "seen-" \o dev.fam \o (IF dev.fam \in {"heater", "plug"} THEN (IF dev.power = 1 THEN "-on" ELSE "-off") ELSE ""), dev, want)
    [] OTHER -> R(<<"unknown-event">>, "unknown", dev, want)

Init == i = 1 /\ bad = <<>> /\ dropped = 0 /\ tags = <<>> /\ dev = NoDev /\ devf = NoDev /\ want = NoWant
Next ==
  /\ i <= NEvents
  /\ LET e == Events[i] r == Step(e) IN
       /\ bad' = IF r.why = <<>> THEN bad ELSE AddBad(bad, e, r.why)
       /\ dropped' = IF r.why = <<>> THEN dropped ELSE Dropped(bad, dropped)
       /\ tags' = Bump(tags, r.tag)
       /\ dev' = r.dev /\ devf' = r.devf /\ want' = r.want
  /\ i' = i + 1
vars == <<i, bad, dropped, tags, dev, devf, want>>
Spec == Init /\ [][Next]_vars
Done == i = NEvents + 1 => WriteVerdict(bad, dropped, tags)
\* the device model's own invariants along every recorded behaviour
PowerAndTimerAgree == dev.fam \in {"heater", "plug"} => (dev.power = 0 <=> dev.remaining = 0)
ViewsAgreeAlways == ViewsAgree(dev) /\ ViewsAgree(devf)
=============================================================================
