---------------------------- MODULE Trace_Catalog ----------------------------
(* code -> spec for C19: the live catalogue (event "Catalog") is judged by     *)
(* Catalog!Violations.  Event "Dial": the control ports a client object of one   *)
(* API class (for protocol type 1 or 2) tried over a history of connects -        *)
(* accepted, refused, after a disconnect - must all be the port of its protocol  *)
(* type (the port tables are worth what the clients do with them).               *)
EXTENDS Catalog, TraceKit
VARIABLES i, bad, dropped, tags
Judge(e) ==
  IF e.ev = "Catalog"
  THEN [why |-> SetToSeq(Violations(e.c)), tag |-> "catalog"]
  ELSE IF e.ev = "Dial"
  THEN [why |-> Clause(\A k \in 1..Len(e.ports) : e.ports[k] = TcpOf(e.api), "C19:control-port-dialled"),     \* (how often it dials is its own business)
        tag |-> "dial-type" \o ToString(e.api)]
  ELSE [why |-> <<"unknown-event">>, tag |-> "unknown"]
Init == i = 1 /\ bad = <<>> /\ dropped = 0 /\ tags = <<>>
Next ==
  /\ i <= NEvents
  /\ LET e == Events[i] r == Judge(e) IN
       /\ bad' = IF r.why = <<>> THEN bad ELSE AddBad(bad, e, r.why)
       /\ dropped' = IF r.why = <<>> THEN dropped ELSE Dropped(bad, dropped)
       /\ tags' = Bump(tags, r.tag)
  /\ i' = i + 1
Spec == Init /\ [][Next]_<<i, bad, dropped, tags>>
Done == i = NEvents + 1 => WriteVerdict(bad, dropped, tags)
=============================================================================
