---------------------------- MODULE Trace_Catalog ----------------------------
(* code -> spec for C19: the live catalogue (event "Catalog") is judged by     *)
(* Catalog!Violations.                                                          *)
EXTENDS Catalog, TraceKit
VARIABLES i, bad, dropped, tags
Judge(e) ==
  IF e.ev = "Catalog"
  THEN [why |-> SetToSeq(Violations(e.c)), tag |-> "catalog"]
  ELSE [why |-> <<"unknown-event">>, tag |-> "unknown"]
Init == i = 1 /\ bad = <<>> /\ dropped = 0 /\ tags = <<>>
Next ==
  /\ i <= NEvents
  /\ LET e == Events[i] r == Judge(e) IN
       /\ bad' = IF r.why = <<>> THEN bad ELSE AddBad(bad, e, r.why)
       /\ dropped' = IF r.why = <<>> THEN dropped ELSE Dropped(bad, dropped)
       /\ tags' = Bump(tags, r.tag)
  /\ i' = i + 1
Spec == Init /\ [][Next]_<<i, bad, dropped, tags>>
Done == i = NEvents + 1 => WriteVerdict(bad, dropped, tags)
=============================================================================
