------------------------------ MODULE MC_Catalog ------------------------------
(* The laws hold on the catalogue of the pinned commit and each law rejects a  *)
(* catalogue perturbed against it (non-vacuity).                               *)
EXTENDS Catalog, TLC
T(n, code, pt, cat) == [name |-> n, code |-> code, ptype |-> pt, cat |-> cat]
H(a, b, c, d) == <<HexDigitLower(a), HexDigitLower(b), HexDigitLower(c), HexDigitLower(d)>>
RefTypes == <<
  T("MINI", H(0, 3, 0, 15), 1, "WATER_HEATER"), T("POWER_PLUG", H(0, 1, 10, 8), 1, "POWER_PLUG"),
  T("TOUCH", H(0, 3, 0, 11), 1, "WATER_HEATER"), T("V2_ESP", H(0, 1, 10, 7), 1, "WATER_HEATER"),
  T("V2_QCA", H(0, 1, 10, 1), 1, "WATER_HEATER"), T("V4", H(0, 3, 1, 7), 1, "WATER_HEATER"),
  T("BREEZE", H(0, 14, 0, 1), 2, "THERMOSTAT"), T("RUNNER", H(0, 12, 0, 1), 2, "SHUTTER"),
  T("RUNNER_MINI", H(0, 12, 0, 2), 2, "SHUTTER") >>
Cats == <<"WATER_HEATER", "POWER_PLUG", "THERMOSTAT", "SHUTTER">>
PT(cat) == IF cat \in {"WATER_HEATER", "POWER_PLUG"} THEN 1 ELSE 2
Acc(types) == [n \in 1..(4 * Len(types)) |->
                 LET own == Cats[((n - 1) \div Len(types)) + 1] ti == ((n - 1) % Len(types)) + 1
                 IN [own |-> own, type |-> ti, ok |-> types[ti].cat = own]]
Ref == [types |-> RefTypes, cats |-> Cats, accepts |-> Acc(RefTypes),
        udp |-> [k \in 1..4 |-> [cat |-> Cats[k], port |-> UdpOf(PT(Cats[k]))]],
        tcp |-> [k \in 1..4 |-> [cat |-> Cats[k], port |-> TcpOf(PT(Cats[k]))]]]

Perturbed == <<
  [law |-> "C19:model-code-unique", c |-> [Ref EXCEPT !.types[3].code = H(0, 3, 0, 15)]],
  [law |-> "C19:model-code-unique", c |-> [Ref EXCEPT !.types[3].code = <<48, 51, 48, 70>>]],   \* same code, upper case
  [law |-> "C19:model-code-is-two-bytes", c |-> [Ref EXCEPT !.types[1].code = <<51, 48, 102>>]],
  [law |-> "C19:protocol-type-is-1-or-2", c |-> [Ref EXCEPT !.types[7].ptype = 3]],
  [law |-> "C19:category-has-one-protocol-type", c |-> [Ref EXCEPT !.types[9].ptype = 1]],
  [law |-> "C19:type-has-a-known-category", c |-> [Ref EXCEPT !.types[2].cat = "LIGHT"]],
  [law |-> "C19:class-accepts-exactly-its-category", c |-> [Ref EXCEPT !.accepts[2].ok = TRUE]],
  [law |-> "C19:class-accepts-exactly-its-category", c |-> [Ref EXCEPT !.accepts[1].ok = FALSE]],
  [law |-> "C19:every-class-type-pair-tried", c |-> [Ref EXCEPT !.accepts = SubSeq(Ref.accepts, 1, 35)]],
  [law |-> "C19:udp-table-total", c |-> [Ref EXCEPT !.udp = SubSeq(Ref.udp, 1, 3)]],
  [law |-> "C19:tcp-table-total", c |-> [Ref EXCEPT !.tcp = SubSeq(Ref.tcp, 2, 4)]],
  [law |-> "C19:udp-port-of-protocol-type", c |-> [Ref EXCEPT !.udp[4].port = 20002]],
  [law |-> "C19:tcp-port-of-protocol-type", c |-> [Ref EXCEPT !.tcp[3].port = 9957]] >>

VARIABLE n
Init == n = 0
Next == n < Len(Perturbed) /\ n' = n + 1
Spec == Init /\ [][Next]_n
ReferenceHolds == n = 0 => Violations(Ref) = {}
EachLawBites == n > 0 => Perturbed[n].law \in Violations(Perturbed[n].c)
=============================================================================
