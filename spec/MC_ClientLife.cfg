SPECIFICATION Spec
CONSTANT MaxSteps = 8
INVARIANT ConnectedIffOpen
INVARIANT NoLeakedConnection
INVARIANT EofAfterClose
INVARIANT DisconnectAlwaysPossible
INVARIANT ReconnectPossible
PROPERTY DisconnectIdempotent
PROPERTY RefusedLeavesDisconnected
CHECK_DEADLOCK FALSE
