SPECIFICATION Spec
CONSTANT MaxSteps = 8
INVARIANT ConnectedIffOpen
INVARIANT NoLeakedConnection
INVARIANT EofAfterClose
INVARIANT DisconnectAlwaysPossible
INVARIANT ReconnectPossible
PROPERTY DisconnectIdempotent
PROPERTY RefusedLeavesDisconnected
PROPERTY ResetKeepsTheFlag
CHECK_DEADLOCK FALSE
