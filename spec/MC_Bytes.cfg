SPECIFICATION Spec
INVARIANT TableIsBitwise
INVARIANT SignShape
INVARIANT Linear
INVARIANT HexRoundTrip
CHECK_DEADLOCK FALSE
