----------------------------- MODULE MC_Duration -----------------------------
(* C14 on the model: all start/end pairs over a minute set.                   *)
EXTENDS Schedule, TLC
CONSTANT Minutes
AllMinutes == 0..1439
GridMinutes == {0, 1, 2, 59, 60, 61, 599, 600, 719, 720, 721, 779, 780, 840, 1379, 1380, 1437, 1438, 1439}
VARIABLES s, e
Init == s = -1 /\ e = -1
Next == \/ s = -1 /\ s' \in Minutes /\ e' = -1
        \/ s >= 0 /\ e = -1 /\ e' \in Minutes /\ s' = s
Spec == Init /\ [][Next]_<<s, e>>
Laws == (s >= 0 /\ e >= 0) =>
  /\ DurationMin(s, e) \in 0..1439
  /\ (s + DurationMin(s, e)) % 1440 = e
  /\ (e = s => DurationMin(s, e) = 0)
  /\ (e > s => DurationMin(s, e) = e - s)
  /\ (e < s => DurationMin(s, e) = 1440 - s + e)
  /\ LET t == DurationText(s, e) IN Len(t) \in 7..8 /\ t[Len(t) - 2] = Colon /\ t[Len(t) - 5] = Colon
=============================================================================
