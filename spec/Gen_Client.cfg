SPECIFICATION GSpec
CONSTANTS MaxOps = 3
          MaxClock = 3
          Small = FALSE
          Tiny = FALSE
          Depth = 40
CONSTRAINT Emit
CHECK_DEADLOCK FALSE
