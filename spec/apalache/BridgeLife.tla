------------------------------ MODULE BridgeLife ------------------------------
(***************************************************************************)
(* The life-cycle slice of MC_Bridge (no datagrams) in a form Apalache can  *)
(* type: the same actions StartBegin / StartPort / StartDone / Stop / Cycle /*)
(* Occupy / Free over three ports.  IndInv is an INDUCTIVE invariant: it     *)
(* holds initially and every step preserves it, so RunningIffListening and   *)
(* FailedStartClean hold in every reachable state of every length, not only  *)
(* up to the depth TLC explores.                                             *)
(***************************************************************************)
EXTENDS Integers, FiniteSets

NPorts == 3
Ports == 1..NPorts

VARIABLES
  \* @type: Set(Int);
  bound,
  \* @type: Set(Int);
  closing,
  \* @type: Set(Int);
  occupied,
  \* @type: Bool;
  running,
  \* @type: Int;
  at,
  \* @type: Set(Int);
  opened,
  \* @type: Bool;
  raised

Busy(p) == p \in occupied \/ p \in bound \/ p \in closing

Init == bound = {} /\ closing = {} /\ occupied = {} /\ running = FALSE /\ at = 0 /\ opened = {} /\ raised = FALSE

StartBegin == at = 0 /\ at' = 1 /\ opened' = {} /\ raised' = FALSE /\ UNCHANGED <<bound, closing, occupied, running>>
StartPort ==
  /\ at \in Ports
  /\ IF Busy(at)
     THEN /\ bound' = bound \ opened /\ closing' = closing \cup opened /\ at' = 0 /\ raised' = TRUE /\ opened' = {}
          /\ UNCHANGED <<occupied, running>>
     ELSE /\ bound' = bound \cup {at} /\ opened' = opened \cup {at} /\ at' = at + 1
          /\ UNCHANGED <<closing, occupied, running, raised>>
StartDone == at = NPorts + 1 /\ at' = 0 /\ running' = TRUE /\ opened' = {} /\ UNCHANGED <<bound, closing, occupied, raised>>
Stop == at = 0 /\ closing' = closing \cup bound /\ bound' = {} /\ running' = FALSE /\ UNCHANGED <<occupied, at, opened, raised>>
Cycle == closing' = {} /\ UNCHANGED <<bound, occupied, running, at, opened, raised>>
Occupy == \E p \in Ports : ~Busy(p) /\ occupied' = occupied \cup {p} /\ UNCHANGED <<bound, closing, running, at, opened, raised>>
Free == \E p \in Ports : p \in occupied /\ occupied' = occupied \ {p} /\ UNCHANGED <<bound, closing, running, at, opened, raised>>
Next == StartBegin \/ StartPort \/ StartDone \/ Stop \/ Cycle \/ Occupy \/ Free

TypeOK == /\ bound \subseteq Ports /\ closing \subseteq Ports /\ occupied \subseteq Ports /\ opened \subseteq Ports
          /\ running \in BOOLEAN /\ raised \in BOOLEAN /\ at \in 0..(NPorts + 1)

\* the properties of interest
RunningIffListening == at = 0 => (running <=> bound = Ports)
NothingLeftBehind == (at = 0 /\ ~running) => bound = {}

\* the inductive strengthening
IndInv ==
  /\ TypeOK
  /\ bound \cap closing = {} /\ bound \cap occupied = {} /\ closing \cap occupied = {}
  /\ running => bound = Ports
  /\ (~running /\ at = 0) => bound = {}
  /\ (~running /\ at > 0) => (bound = opened /\ opened = {p \in Ports : p < at})
  /\ (running /\ at > 0) => (opened = {} /\ at = 1)
  /\ at = 0 => opened = {}
IndInit ==
  /\ bound \in SUBSET Ports /\ closing \in SUBSET Ports /\ occupied \in SUBSET Ports /\ opened \in SUBSET Ports
  /\ running \in BOOLEAN /\ raised \in BOOLEAN /\ at \in 0..(NPorts + 1)
  /\ IndInv
===============================================================================
