------------------------------ MODULE DeviceTimer ------------------------------
(***************************************************************************)
(* The timer slice of Device.tla / Switcher.tla (a water heater or plug) in  *)
(* a form Apalache can type, WITHOUT the small constants of Switcher.cfg:    *)
(* any timer (minutes), any accepted auto-shutdown value, any number of      *)
(* seconds passing per step.  IndInv is an INDUCTIVE invariant, so           *)
(* PowerAndTimerAgree (an OFF device has no time left, an ON device has      *)
(* some), the 24-hour range of every counter and "a device that is off has   *)
(* not been on" hold in every reachable state of every length - the          *)
(* unbounded counterpart of what TLC checks on Switcher.cfg, and the reason  *)
(* why a broadcast and a state reply of one device state can always be       *)
(* rendered as HH:MM:SS (Device!ViewsAgree).                                 *)
(***************************************************************************)
EXTENDS Integers

VARIABLES
  \* @type: Int;
  power,
  \* @type: Int;
  remaining,
  \* @type: Int;
  onFor,
  \* @type: Int;
  autoOff

Least(a, b) == IF a < b THEN a ELSE b

Init == power = 0 /\ remaining = 0 /\ onFor = 0 /\ autoOff = 3600

\* control_device(ON, m): m minutes, 0 = no timer (the auto-shutdown value applies)
ControlOn == \E m \in Nat :
  /\ power' = 1
  /\ remaining' = Least(86399, IF 60 * m > 0 THEN 60 * m ELSE autoOff)
  /\ onFor' = IF power = 1 THEN onFor ELSE 0
  /\ UNCHANGED autoOff
ControlOff == power' = 0 /\ remaining' = 0 /\ onFor' = 0 /\ UNCHANGED autoOff
\* set_auto_shutdown: whole minutes within 1 h .. 23 h 59 min (C02)
SetAutoOff == \E mins \in 60..1439 : autoOff' = 60 * mins /\ UNCHANGED <<power, remaining, onFor>>
\* s seconds pass
Elapse == \E s \in Nat :
  /\ s > 0
  /\ IF power = 1
     THEN IF remaining > s
          THEN power' = 1 /\ remaining' = remaining - s /\ onFor' = Least(86399, onFor + s)
          ELSE power' = 0 /\ remaining' = 0 /\ onFor' = 0
     ELSE UNCHANGED <<power, remaining, onFor>>
  /\ UNCHANGED autoOff
Next == ControlOn \/ ControlOff \/ SetAutoOff \/ Elapse

\* the properties of interest
PowerAndTimerAgree == (power = 0) <=> (remaining = 0)
CountersWithinADay == remaining \in 0..86399 /\ onFor \in 0..86399 /\ autoOff \in 3600..86399
OffHasNotBeenOn == power = 0 => onFor = 0

IndInv ==
  /\ power \in {0, 1}
  /\ CountersWithinADay
  /\ PowerAndTimerAgree
  /\ OffHasNotBeenOn
IndInit ==
  /\ power \in {0, 1} /\ remaining \in 0..86399 /\ onFor \in 0..86399 /\ autoOff \in 3600..86399
  /\ IndInv
===============================================================================
