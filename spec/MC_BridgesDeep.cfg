SPECIFICATION Spec
CONSTANTS NObjects = 3
          SharedTable = FALSE
          PortLists <- Lists3
INVARIANT OneHolderPerPort
INVARIANT ForeignApart
INVARIANT RunningMeansListening
INVARIANT ListeningWithoutRunning
INVARIANT CoreAgrees
INVARIANT Restartable
PROPERTY Isolation
PROPERTY StopReleasesAll
PROPERTY FailedStartClean
CHECK_DEADLOCK FALSE
