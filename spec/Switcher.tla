------------------------------- MODULE Switcher -------------------------------
(***************************************************************************)
(* L3: client, device and bridge composed - the end-to-end behaviours      *)
(* "a TCP operation changes the device, the device's next broadcast tells  *)
(* every listening bridge".  One water heater, one user with an API object *)
(* and a bridge.  The wire is abstracted to decoded frames (Wire) and to   *)
(* the fields a broadcast reports (Device!Reported); the byte level of     *)
(* both is bound to the code by Trace_Client / Trace_Bridge and, end to    *)
(* end, by Trace_Switcher.                                                 *)
(***************************************************************************)
EXTENDS Device, TLC

CONSTANTS Timers,        \* timer values (minutes) the user may ask for; 0 = none
          AutoOffs,      \* auto-shutdown values (seconds) the user may configure
          Step,          \* seconds that pass per Elapse step
          MaxAir,        \* broadcasts that can be in the air at once
          Fam            \* the device family behind the API object: "heater", "plug", "shutter" or "thermo"

FamCode == CASE Fam = "heater" -> <<3, 23>> [] Fam = "plug" -> <<1, 168>> [] Fam = "shutter" -> <<12, 1>> [] OTHER -> <<14, 1>>
Dev0 == NewDevice(Fam, FamCode, <<1, 2, 3>>, <<24>>, <<66>>, <<10, 0, 0, 7>>, <<1, 2, 3, 4, 5, 6>>)
Positions == {0, 37, 100}
ThermoAsks == [state : {0, 1}, mode : {1, 4}, temp : {18, 30}, fan : {0, 3}, swing : {0, 1}]
Ctx == [sess |-> <<1, 0, 0, 0>>, ts |-> Zeros(4), dev |-> Dev0.id]

VARIABLES dev,        \* the device
          air,        \* broadcasts sent and not yet received: sequence of Reported records (UDP: may be lost, not reordered here)
          running,    \* the user's bridge is running
          view,       \* what the bridge last handed to the user's callback ("none" before the first)
          lastCmd,    \* the last operation the device acknowledged: <<kind, value>>
          seen,       \* number of broadcasts delivered since lastCmd was acknowledged and that were SENT after it
          read,       \* what the API object's last state query returned ("none" before the first)
          quiet       \* TRUE while neither time nor another command has moved the device since lastCmd
vars == <<dev, air, running, view, lastCmd, seen, read, quiet>>
None == [state |-> -1]

Init == dev = Dev0 /\ air = <<>> /\ running = FALSE /\ view = None /\ lastCmd = <<"none", 0>> /\ seen = 0 /\ read = None /\ quiet = FALSE

\* the user's API object performs an operation; the device applies the decoded frame and acknowledges
Control(on, m) ==
  /\ Fam \in {"heater", "plug"}
  /\ dev' = Apply(dev, Ctx @@ [kind |-> "control", on |-> on, timer |-> TimerField(m)])
  /\ lastCmd' = <<"control", on, m>> /\ seen' = 0 /\ air' = <<>>      \* (broadcasts already in the air are older than the command)
  /\ read' = None /\ quiet' = TRUE
  /\ UNCHANGED <<running, view>>
SetAutoOff(s) ==
  /\ Fam = "heater"
  /\ dev' = Apply(dev, Ctx @@ [kind |-> "autooff", secs |-> AutoOffField(s)])
  /\ lastCmd' = <<"autooff", s>> /\ seen' = 0 /\ air' = <<>> /\ read' = None /\ quiet' = TRUE /\ UNCHANGED <<running, view>>
\* a shutter is sent to a position or stopped; a thermostat is told its new state (the status frame of update-only control)
Acked(cmd) == lastCmd' = cmd /\ seen' = 0 /\ air' = <<>> /\ read' = None /\ quiet' = TRUE /\ UNCHANGED <<running, view>>
SetPosition(p) == Fam = "shutter" /\ dev' = Apply(dev, Ctx @@ [kind |-> "runnerpos", pos |-> p]) /\ Acked(<<"position", p>>)
StopShutter == Fam = "shutter" /\ dev' = Apply(dev, Ctx @@ [kind |-> "runnerstop"]) /\ Acked(<<"stop", 0>>)
TellThermo(a) == /\ Fam = "thermo"
                 /\ dev' = Apply(dev, Ctx @@ [kind |-> "breezestatus", state |-> a.state, mode |-> a.mode, temp |-> a.temp, fan |-> a.fan, swing |-> a.swing])
                 /\ Acked(<<"thermo", a>>)
\* the API object asks the device for its state over TCP (the same connection the commands use)
Query == read' = Readback(dev) /\ UNCHANGED <<dev, air, running, view, lastCmd, seen, quiet>>
Elapse1 == dev' = Elapse(dev, Step) /\ quiet' = FALSE /\ UNCHANGED <<air, running, view, lastCmd, seen, read>>
Broadcast == Len(air) < MaxAir /\ air' = Append(air, Reported(dev)) /\ UNCHANGED <<dev, running, view, lastCmd, seen, read, quiet>>
Lose == air # <<>> /\ air' = Tail(air) /\ UNCHANGED <<dev, running, view, lastCmd, seen, read, quiet>>
Deliver == /\ running /\ air # <<>> /\ view' = Head(air) /\ air' = Tail(air) /\ seen' = 1
           /\ UNCHANGED <<dev, running, lastCmd, read, quiet>>
Start == ~running /\ running' = TRUE /\ UNCHANGED <<dev, air, view, lastCmd, seen, read, quiet>>
Stop == running /\ running' = FALSE /\ UNCHANGED <<dev, air, view, lastCmd, seen, read, quiet>>

Next == \/ \E on \in {0, 1}, m \in Timers : Control(on, m)
        \/ \E s \in AutoOffs : SetAutoOff(s)
        \/ (\E p \in Positions : SetPosition(p)) \/ StopShutter \/ (\E a \in ThermoAsks : TellThermo(a))
        \/ Query \/ Elapse1 \/ Broadcast \/ Lose \/ Deliver \/ Start \/ Stop
Spec == Init /\ [][Next]_vars /\ WF_vars(Elapse1)

---------------------------------------------------------------------------
\* bound for the quick configuration: a heater kept on by repeated commands is followed for a few steps only
ShortOn == dev.onFor <= 3 * Step
TypeOK == dev.power \in {0, 1} /\ dev.remaining \in 0..86399 /\ dev.autoOff \in 0..86399 /\ dev.onFor \in 0..86399
\* an OFF device has no time left; an ON device has some
PowerAndTimerAgree == Fam \in {"heater", "plug"} => (dev.power = 0 <=> dev.remaining = 0)
\* a broadcast never shows power or remaining time for a device that is OFF (the normalisation of C05, at the source)
ReportedNormalised == Fam = "heater" => \A k \in 1..Len(air) : air[k].state = 0 => air[k].watts = 0 /\ air[k].remaining = HHMMSS(0)
\* what the user sees after a broadcast sent after the acknowledged command: that command's effect
SeesTheCommand ==
  (seen > 0 /\ view # None) =>
     CASE lastCmd[1] = "control" /\ lastCmd[2] = 0 -> view.state = 0
       [] lastCmd[1] = "autooff" -> view.auto = HHMMSS(lastCmd[2] - (lastCmd[2] % 60))
       [] lastCmd[1] = "position" -> view.position = lastCmd[2] /\ view.direction = <<0, 0>>
       [] lastCmd[1] = "stop" -> view.direction = <<0, 0>>
       [] lastCmd[1] = "thermo" -> LET a == lastCmd[2] IN
                                   view.state = a.state /\ view.mode = a.mode /\ view.target = a.temp /\ view.fan = a.fan /\ view.swing = a.swing
       [] OTHER -> TRUE
\* a broadcast and a state reply taken from one device state agree on everything both carry; an OFF device has not been on
ViewsAgreeAlways == ViewsAgree(dev) /\ (dev.power = 0 => dev.onFor = 0)
\* what a state query returns right after an acknowledged command (before time moves): that command's effect
ReadSeesTheCommand ==
  (read # None /\ quiet) =>
     CASE lastCmd[1] = "control" /\ lastCmd[2] = 0 -> read.state = 0 /\ read.watts = 0 /\ read.left = HHMMSS(0) /\ read.on = HHMMSS(0)
       [] lastCmd[1] = "control" /\ lastCmd[2] = 1 ->
            read.state = 1 /\ read.left = HHMMSS(Least(86399, IF lastCmd[3] > 0 THEN 60 * lastCmd[3] ELSE dev.autoOff))
       [] lastCmd[1] = "autooff" -> read.auto = HHMMSS(lastCmd[2] - (lastCmd[2] % 60))
       [] lastCmd[1] = "position" -> read.position = lastCmd[2] /\ read.direction = <<0, 0>>
       [] lastCmd[1] = "stop" -> read.direction = <<0, 0>>
       [] lastCmd[1] = "thermo" -> LET a == lastCmd[2] IN
                                   read.state = a.state /\ read.mode = a.mode /\ read.target = a.temp /\ read.fan = a.fan /\ read.swing = a.swing
       [] OTHER -> TRUE
\* a state query changes nothing at the device, in the air or at the bridge
QueriesAreReadOnly == [][Query => dev' = dev /\ air' = air /\ view' = view]_vars
\* nothing reaches the callback while the bridge is stopped
NoDeliveryWhileStopped == [][~running => view' = view]_vars
\* the timer only moves towards zero unless the user intervenes
TimerCountsDown == [][Elapse1 => dev'.remaining <= dev.remaining /\ dev'.autoOff = dev.autoOff /\ dev'.name = dev.name]_vars
\* only the user's operations and the passing of time change the device: the bridge and the air do not
OnlyCommandsAndTimeChangeTheDevice == [][(Query \/ Broadcast \/ Lose \/ Deliver \/ Start \/ Stop) => dev' = dev]_vars
\* liveness: a heater that is on switches itself off if nobody interferes (timer or auto-shutdown)
SwitchesOffEventually == Fam \in {"heater", "plug"} => ((<>[][~(\E on \in {0, 1}, m \in Timers : Control(on, m))]_vars) => <>(dev.power = 0))
\* a shutter or a thermostat does not change by itself: time alone moves nothing
TimeMovesOnlyTimers == [][Elapse1 /\ Fam \in {"shutter", "thermo"} => dev' = dev]_vars
=============================================================================
