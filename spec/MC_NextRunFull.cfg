SPECIFICATION Spec
CONSTANT Grid <- FullGrid
INVARIANT NamedDayIsSelected
INVARIANT TodayRule
INVARIANT TomorrowRule
INVARIANT WeekAheadRule
INVARIANT Earliest
INVARIANT Defined
CHECK_DEADLOCK FALSE
