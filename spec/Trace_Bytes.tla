----------------------------- MODULE Trace_Bytes -----------------------------
(***************************************************************************)
(* code -> spec for C04: every recorded call of sign_packet_with_crc_key    *)
(* is judged against Bytes!SignHex.                                         *)
(* event Sign: in = input text (byte values of its UTF-8), raised = BOOLEAN,*)
(*             out = output text, out2 / raised2 = a second identical call   *)
(***************************************************************************)
EXTENDS Bytes, TraceKit

VARIABLES i, bad, dropped, tags

JudgeSign(e) ==
  LET want == SignHex(e.in) IN
  IF want = <<>>
  THEN [why |-> Clause(e.raised, "C04:nonhex-must-raise") \o Clause(e.raised2, "C04:nonhex-must-raise-again"), tag |-> "nonhex"]
  ELSE [why |->   Clause(~e.raised, "C04:valid-hex-raised")
               \o (IF e.raised THEN <<>> ELSE
                     Clause(Len(e.out) = Len(e.in) + 8, "C04:adds-exactly-4-bytes")
                  \o Clause(Len(e.out) >= Len(e.in) /\ SubSeq(e.out, 1, Len(e.in)) = e.in, "C04:prefix-unaltered")
                  \o Clause(Len(e.out) = Len(e.in) + 8 /\ SubSeq(e.out, Len(e.in) + 1, Len(e.in) + 4) = SubSeq(want, Len(e.in) + 1, Len(e.in) + 4), "C04:crc-of-packet")
                  \o Clause(Len(e.out) = Len(e.in) + 8 /\ SubSeq(e.out, Len(e.in) + 5, Len(e.in) + 8) = SubSeq(want, Len(e.in) + 5, Len(e.in) + 8), "C04:crc-of-key")
                  \o Clause(~e.raised2 /\ e.out2 = e.out, "C04:deterministic")),
        tag |-> IF Len(e.in) = 0 THEN "empty" ELSE IF Len(e.in) <= 4 THEN "short" ELSE "long"]

Judge(e) == IF e.ev = "Sign" THEN JudgeSign(e) ELSE [why |-> <<"unknown-event">>, tag |-> "unknown"]

Init == i = 1 /\ bad = <<>> /\ dropped = 0 /\ tags = <<>>
Next ==
  /\ i <= NEvents
  /\ LET e == Events[i] r == Judge(e) IN
       /\ bad' = IF r.why = <<>> THEN bad ELSE AddBad(bad, e, r.why)
       /\ dropped' = IF r.why = <<>> THEN dropped ELSE Dropped(bad, dropped)
       /\ tags' = Bump(tags, r.tag)
  /\ i' = i + 1
Spec == Init /\ [][Next]_<<i, bad, dropped, tags>>
Done == i = NEvents + 1 => WriteVerdict(bad, dropped, tags)
=============================================================================
