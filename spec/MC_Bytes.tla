------------------------------ MODULE MC_Bytes ------------------------------
(***************************************************************************)
(* Bounded-exhaustive self-check of Bytes: every byte string of length     *)
(* 0..2 is one initial state; TLC evaluates the laws in each.              *)
(***************************************************************************)
EXTENDS Bytes, Captures, TLC

VARIABLE s
\* the inputs form a tree rooted at the empty string, so that TLC's workers share the work
Init == s = <<>>
Next == Len(s) < 2 /\ \E b \in Byte : s' = Append(s, b)
Spec == Init /\ [][Next]_s

\* public check values of the CRC family ("123456789")
Nine == <<49, 50, 51, 52, 53, 54, 55, 56, 57>>
ASSUME CrcBitwise(Nine, 0) = 12739          \* CRC-16/XMODEM  0x31C3
ASSUME CrcBitwise(Nine, 65535) = 10673      \* CRC-16/CCITT-FALSE 0x29B1
ASSUME Crc16(Nine, 0) = 12739 /\ Crc16(Nine, 65535) = 10673
ASSUME \A b \in Byte : CrcTable[b] \in 0..65535
ASSUME Cardinality({CrcTable[b] : b \in Byte}) = 256

\* the first signature half of every unsanitised device message shipped with the
\* repository is this CRC of the preceding bytes: it is the protocol's CRC, not
\* merely the library's (the second half differs: a device signs with its own key)
ASSUME \A m \in DeviceSigned :
          LET body == SubSeq(m, 1, Len(m) - 4) IN LE16(Crc16(body, SignInit)) = SubSeq(m, Len(m) - 3, Len(m) - 2)
\* and the frames pinned by the repository's own signing tests are reproduced completely
ASSUME \A m \in ClientSigned : Sign(SubSeq(m, 1, Len(m) - 4)) = m

TableIsBitwise == \A init \in {0, SignInit, 65535} : Crc16(s, init) = CrcBitwise(s, init)
SignShape ==
  /\ Len(Sign(s)) = Len(s) + 4
  /\ SubSeq(Sign(s), 1, Len(s)) = s
  /\ IsByteSeq(Sign(s))
  /\ Sig(s) = LE16(CrcBitwise(s, SignInit)) \o LE16(CrcBitwise(LE16(CrcBitwise(s, SignInit)) \o KeyPad, SignInit))
\* CRC is affine: crc(a xor b, 0) = crc(a,0) xor crc(b,0) on equal lengths (checked against a fixed partner)
Partner == [k \in 1..Len(s) |-> (37 * k + 11) % 256]
Linear == Crc16([k \in 1..Len(s) |-> s[k] ^^ Partner[k]], 0) = Crc16(s, 0) ^^ Crc16(Partner, 0)
HexRoundTrip == UnHex(HexLower(s)) = s /\ IsHexText(HexLower(s)) /\ SignHex(HexLower(s)) = HexLower(Sign(s))
=============================================================================
