------------------------------- MODULE Replies -------------------------------
(***************************************************************************)
(* L1: what a device answers and what the client must report (C08, C10).   *)
(* Offsets are protocol offsets (0-based) as in DESIGN.md section 1.3.      *)
(* Decoders return records of plain values; texts are byte sequences.       *)
(* Place(base, off, bytes) is the device-side encoder primitive: a reply is *)
(* any base string with the owned fields placed at their offsets.           *)
(***************************************************************************)
EXTENDS Schedule

Place(base, off, bs) == [k \in 1..Len(base) |-> IF k > off /\ k <= off + Len(bs) THEN bs[k - off] ELSE base[k]]
Field(r, off, n) == SubSeq(r, off + 1, off + n)

---------------------------------------------------------------------------
(* login *)
SessionCarried(r) == Len(r) >= 12
SessionOf(r) == Field(r, 8, 4)
EncodeLogin(base, sess) == Place(base, 8, sess)

(* generic *)
Successful(r) == r # <<>>

---------------------------------------------------------------------------
(* type-1 state: state 75, power LE16 77, time left LE32 89, time on LE32 93, auto shutdown LE32 97 *)
TimeOk(b4) == Fits31(b4) /\ Nat31(b4) <= 86399
WellFormedState1(r) ==
  /\ Len(r) >= 101
  /\ At(r, 75) \in {0, 1}
  /\ TimeOk(Field(r, 89, 4)) /\ TimeOk(Field(r, 93, 4)) /\ TimeOk(Field(r, 97, 4))
DecodeState1(r) ==
  [state |-> At(r, 75),
   watts |-> LE16At(r, 77),
   left |-> HHMMSS(Nat31(Field(r, 89, 4))),
   on |-> HHMMSS(Nat31(Field(r, 93, 4))),
   auto |-> HHMMSS(Nat31(Field(r, 97, 4)))]
EncodeState1(base, d) ==
  Place(Place(Place(Place(Place(base, 75, <<d.state>>), 77, LE16(d.watts)), 89, LE32(d.left)), 93, LE32(d.on)), 97, LE32(d.auto))
\* amps = watts / 220 to one decimal (either neighbour at an exact tie), as tenths
AmpsOk(watts, amps10) == LET diff == 220 * amps10 - 10 * watts IN diff <= 110 /\ diff >= -110

---------------------------------------------------------------------------
(* thermostat state: temperature LE16 tenths 76, power 78, mode 79, target 80, fan|swing nibbles 81, remote id 84..91 *)
IsAsciiPrintable(s) == \A k \in 1..Len(s) : s[k] >= 32 /\ s[k] <= 126
WellFormedThermo(r) ==
  /\ Len(r) >= 92
  /\ At(r, 78) \in {0, 1}
  /\ At(r, 79) \in 1..5
  /\ At(r, 81) \div 16 \in 0..3
  /\ At(r, 81) % 16 \in {0, 1}
  /\ LET id == StripNul(Field(r, 84, 8)) IN Len(id) >= 1 /\ IsAsciiPrintable(id)
DecodeThermo(r) ==
  [state |-> At(r, 78), mode |-> At(r, 79), target |-> At(r, 80),
   fan |-> At(r, 81) \div 16, swing |-> At(r, 81) % 16,
   temp10 |-> LE16At(r, 76), remote |-> StripNul(Field(r, 84, 8))]
EncodeThermo(base, d) ==
  Place(Place(Place(base, 76, LE16(d.temp10) \o <<d.state, d.mode, d.target, 16 * d.fan + d.swing>>), 84, Zeros(8)), 84, d.remote)

---------------------------------------------------------------------------
(* shutter state: position 76, direction 78..79 *)
Directions == {<<0, 0>>, <<1, 0>>, <<0, 1>>}          \* stop, up, down
WellFormedShutter(r) == Len(r) >= 80 /\ Field(r, 78, 2) \in Directions
DecodeShutter(r) == [position |-> At(r, 76), direction |-> Field(r, 78, 2)]
EncodeShutter(base, d) == Place(Place(base, 76, <<d.position>>), 78, d.direction)

---------------------------------------------------------------------------
(* schedules: 40 header bytes, 5 bytes, 16-byte records from offset 45, 4 signature bytes *)
WholeRecords(r) == Len(r) = 0 \/ (Len(r) >= 49 /\ (Len(r) - 49) % 16 = 0)
NRecords(r) == IF Len(r) < 49 THEN 0 ELSE (Len(r) - 49) \div 16
RecordAt(r, n) == Field(r, 45 + 16 * (n - 1), 16)            \* n = 1..NRecords
EncodeSchedules(head45, recs, sig4) == head45 \o FoldLeft(LAMBDA a, x : a \o x, <<>>, recs) \o sig4
\* what one listed record means on a host whose zone is z (instants and zone rules relative to `base`, see Schedule!Rel)
RecordMeaningRel(z, rec, base) ==
  LET s == HM(z, Rel(RecStart4(rec), base))
      e == HM(z, Rel(RecEnd4(rec), base))
  IN [id |-> Decimal(RecId(rec)),
      recurring |-> RecRecurring(rec),
      days |-> IF RecRecurring(rec) THEN DaysOf(RecMask(rec)) ELSE {},
      start |-> TwoDigits(s[1]) \o <<Colon>> \o TwoDigits(s[2]),
      end |-> TwoDigits(e[1]) \o <<Colon>> \o TwoDigits(e[2]),
      duration |-> DurationText(60 * s[1] + s[2], 60 * e[1] + e[2])]
RecordMeaning(z, rec) == RecordMeaningRel(z, rec, <<0, 0>>)
\* records the statement covers: even masks (a day set or non-recurring), instants TLC can reach from the base
RecordInDomainRel(rec, base) == RecMask(rec) % 2 = 0 /\ RelFits(RecStart4(rec), base) /\ RelFits(RecEnd4(rec), base)
RecordInDomain(rec) == RecordInDomainRel(rec, <<0, 0>>)
=============================================================================
