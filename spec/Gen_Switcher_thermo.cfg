SPECIFICATION GSpec
CONSTANTS Timers = {0, 30}
          AutoOffs = {3719, 86399}
          Step = 1800
          MaxAir = 3
          Fam = "thermo"
          Depth = 30
CONSTRAINT Emit
CHECK_DEADLOCK FALSE
