-------------------------------- MODULE Remote --------------------------------
(***************************************************************************)
(* L1: IR remotes (C15).  An IR set is a record                            *)
(*   id    : text (remote id),  onoff : 0/1 (1 = toggle remote),           *)
(*   waves : sequence of [key, para, hex] (all text)                       *)
(* A request is [state (0 off/1 on), mode 1..5, temp, fan 0..3 (0 auto,    *)
(* 1 low, 2 medium, 3 high), swing 0/1, prev (-1 unknown, 0 off, 1 on)].    *)
(* Texts are byte sequences (ASCII).                                        *)
(***************************************************************************)
EXTENDS Schedule       \* for HasSub, IsDigit, Decimal

T2(a, b) == <<a, b>>
ModeCode(m) == CASE m = 1 -> T2(97, 97)      \* "aa" auto
                 [] m = 2 -> T2(97, 100)     \* "ad" dry
                 [] m = 3 -> T2(97, 119)     \* "aw" fan
                 [] m = 4 -> T2(97, 114)     \* "ar" cool
                 [] m = 5 -> T2(97, 104)     \* "ah" heat
ModeNames == << <<97, 117, 116, 111>>, <<100, 114, 121>>, <<102, 97, 110>>, <<99, 111, 111, 108>>, <<104, 101, 97, 116>> >>
FanPart(f) == <<95, 102, 48 + f>>            \* "_f0".."_f3"
SwingPart == <<95, 100, 49>>                 \* "_d1"
OnPrefix == <<111, 110, 95>>                 \* "on_"
OffKey == <<111, 102, 102>>                  \* "off"
SwingKey(s) == <<70, 85, 78, 95, 100, 48 + s>>   \* "FUN_d0" / "FUN_d1"
Bar == 124                                   \* "|"

\* ids whose swing is a separate command (list provided by the vendor)
SpecialIds == { <<69, 76, 69, 67, 55, 48, 50, 50>>,            \* ELEC7022
                <<90, 77, 48, 55, 57, 48, 53, 53>>,            \* ZM079055
                <<90, 77, 48, 55, 57, 48, 54, 53>>,            \* ZM079065
                <<90, 77, 48, 55, 57, 48, 52, 57>> }           \* ZM079049

KeysOf(s) == {s.waves[k].key : k \in 1..Len(s.waves)}
HasKey(s, key) == key \in KeysOf(s)
\* the entry stored under a key (the last one, should the set list a key twice)
EntryOf(s, key) == LET ks == {k \in 1..Len(s.waves) : s.waves[k].key = key}
                       n == CHOOSE k \in ks : \A j \in ks : j <= k
                   IN s.waves[n]

---------------------------------------------------------------------------
(* capabilities "present in the set" *)
SupportedModes(s) == {m \in 1..5 : \E key \in KeysOf(s) : Len(key) >= 2 /\ SubSeq(key, 1, 2) = ModeCode(m)}
Temps(s) == {10 * (key[3] - 48) + (key[4] - 48) : key \in {x \in KeysOf(s) : Len(x) >= 4 /\ IsDigit(x[3]) /\ IsDigit(x[4])}}
MinTemp(s) == CHOOSE t \in Temps(s) : \A u \in Temps(s) : t <= u
MaxTemp(s) == CHOOSE t \in Temps(s) : \A u \in Temps(s) : t >= u
IsToggle(s) == s.onoff = 1
SeparateSwing(s) == s.id \in SpecialIds

---------------------------------------------------------------------------
(* resolving a request to the stored code *)
Clamp(s, t) == IF t > MaxTemp(s) THEN MaxTemp(s) ELSE IF t < MinTemp(s) THEN MinTemp(s) ELSE t
UsesTemp(m) == m \in {4, 5}
Prefix(s, r) == IF IsToggle(s) /\ r.prev # -1 /\ r.prev # r.state THEN OnPrefix ELSE <<>>
\* most specific first: with swing (only when swing is on), without swing, without fan level
Chain(s, r) ==
  LET base == Prefix(s, r) \o ModeCode(r.mode) \o (IF UsesTemp(r.mode) THEN Decimal(Clamp(s, r.temp)) ELSE <<>>)
      wf == base \o FanPart(r.fan)
  IN (IF r.swing = 1 THEN <<wf \o SwingPart>> ELSE <<>>) \o <<wf, base>>
\* result: [kind |-> "unsupported"] | [kind |-> "open"] | [kind |-> "code", key, entry]
Resolve(s, r) ==
  IF r.mode \notin SupportedModes(s) THEN [kind |-> "unsupported"]
  ELSE IF UsesTemp(r.mode) /\ Temps(s) = {} THEN [kind |-> "open"]
  ELSE IF ~IsToggle(s) /\ r.state = 0
       THEN IF HasKey(s, OffKey) THEN [kind |-> "code", key |-> OffKey, entry |-> EntryOf(s, OffKey)] ELSE [kind |-> "open"]
  ELSE LET ch == Chain(s, r)
           hits == {k \in 1..Len(ch) : HasKey(s, ch[k])}
       IN IF hits = {} THEN [kind |-> "open"]
          ELSE LET k == CHOOSE x \in hits : \A y \in hits : x <= y
               IN [kind |-> "code", key |-> ch[k], entry |-> EntryOf(s, ch[k])]

Payload(entry) == Zeros(4) \o entry.para \o <<Bar>> \o entry.hex
LenField(payload) == LE16(Len(payload))
ResolveSwing(s, swing) ==
  IF HasKey(s, SwingKey(swing)) THEN [kind |-> "code", key |-> SwingKey(swing), entry |-> EntryOf(s, SwingKey(swing))]
  ELSE [kind |-> "open"]
=============================================================================
