SPECIFICATION Spec
INVARIANT SessionOfOwnLogin
CHECK_DEADLOCK FALSE
