SPECIFICATION Spec
CONSTANTS MaxOps = 3
          AnswersLate = FALSE
          LibraryGivesUp = "hangsup"
INVARIANT SessionOfThisLogin
CHECK_DEADLOCK FALSE
