SPECIFICATION Spec
CONSTANTS MaxOps = 3
          AnswersLate = FALSE
INVARIANT SessionOfThisLogin
CHECK_DEADLOCK FALSE
