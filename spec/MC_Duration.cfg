SPECIFICATION Spec
CONSTANT Minutes <- GridMinutes
INVARIANT Laws
CHECK_DEADLOCK FALSE
