------------------------------ MODULE Schedule ------------------------------
(***************************************************************************)
(* Schedules: weekday masks, durations, the next-run rule and the 16-byte  *)
(* schedule record.  Weekdays are 0..6 with Monday = 0.                    *)
(***************************************************************************)
EXTENDS Bytes, LocalTime

WeekDays == 0..6
DayBit(d) == 2 ^ (d + 1)                       \* Monday 0x02 ... Sunday 0x80

RECURSIVE SumBits(_)
SumBits(S) == IF S = {} THEN 0 ELSE LET d == CHOOSE x \in S : TRUE IN DayBit(d) + SumBits(S \ {d})
DayMask(S) == SumBits(S)
DaysOf(m) == {d \in WeekDays : (m \div DayBit(d)) % 2 = 1}
MaskText(S) == HexLower(<<DayMask(S)>>)          \* exactly two lower-case hex digits
MaskAccepted(m) == m >= 2 /\ m <= 254           \* decoder domain of the statement

DayNames == <<
  <<77, 111, 110, 100, 97, 121>>,                    \* Monday
  <<84, 117, 101, 115, 100, 97, 121>>,               \* Tuesday
  <<87, 101, 100, 110, 101, 115, 100, 97, 121>>,     \* Wednesday
  <<84, 104, 117, 114, 115, 100, 97, 121>>,          \* Thursday
  <<70, 114, 105, 100, 97, 121>>,                    \* Friday
  <<83, 97, 116, 117, 114, 100, 97, 121>>,           \* Saturday
  <<83, 117, 110, 100, 97, 121>> >>                  \* Sunday

---------------------------------------------------------------------------
(* duration: (end - start) modulo 24 hours, rendered H:MM:SS                *)
DurationMin(s, e) == (e - s + 1440) % 1440
DurationText(s, e) ==
  LET m == DurationMin(s, e) IN Decimal(m \div 60) \o <<Colon>> \o TwoDigits(m % 60) \o <<Colon, 48, 48>>

---------------------------------------------------------------------------
(* next run: wd = today's local weekday, nowMin / startMin = minute of the  *)
(* local day, D = selected weekdays.  Result <<k>>: 0 today, 1 tomorrow,    *)
(* 2..7 "next <weekday (wd+k) mod 7>"; 7 = a full week ahead.               *)
Upcoming(wd, nowMin, startMin, D, k) == ((wd + k) % 7) \in D /\ (k > 0 \/ startMin > nowMin)
NextRunK(wd, nowMin, startMin, D) ==
  IF D = {} THEN 0
  ELSE CHOOSE k \in 0..7 : Upcoming(wd, nowMin, startMin, D, k)
                           /\ \A j \in 0..(k - 1) : ~Upcoming(wd, nowMin, startMin, D, j)
NextRunDay(wd, k) == (wd + k) % 7

---------------------------------------------------------------------------
(* text search (byte sequences)                                             *)
IsAt(t, sub, p) == p + Len(sub) - 1 <= Len(t) /\ SubSeq(t, p, p + Len(sub) - 1) = sub
HasSub(t, sub) == \E p \in 1..(Len(t) - Len(sub) + 1) : IsAt(t, sub, p)
Lower(c) == IF c >= 65 /\ c <= 90 THEN c + 32 ELSE c
LowerSeq(t) == [k \in 1..Len(t) |-> Lower(t[k])]
TxtToday == <<116, 111, 100, 97, 121>>
TxtTomorrow == <<116, 111, 109, 111, 114, 114, 111, 119>>
TxtNext == <<110, 101, 120, 116, 32>>
\* the day term a display text carries: <<0>> today, <<1>> tomorrow, <<2, weekday>> next <weekday>, <<>> none
DayTerm(text) ==
  LET t == LowerSeq(text) IN
  IF HasSub(t, TxtTomorrow) THEN <<1>>
  ELSE IF HasSub(t, TxtToday) THEN <<0>>
  ELSE IF \E d \in WeekDays : HasSub(t, TxtNext \o LowerSeq(DayNames[d + 1]))
       THEN <<2, CHOOSE d \in WeekDays : HasSub(t, TxtNext \o LowerSeq(DayNames[d + 1]))>>
  ELSE <<>>

---------------------------------------------------------------------------
(* clock strings                                                            *)
IsDigit(c) == c >= 48 /\ c <= 57
IsSpace(c) == c \in {32, 9, 10, 11, 12, 13}
\* the strict form the statement names: HH:MM, two digits each, 00..23 / 00..59
StrictClock(t) ==
  /\ Len(t) = 5 /\ t[3] = Colon
  /\ IsDigit(t[1]) /\ IsDigit(t[2]) /\ IsDigit(t[4]) /\ IsDigit(t[5])
  /\ 10 * (t[1] - 48) + (t[2] - 48) <= 23
  /\ 10 * (t[4] - 48) + (t[5] - 48) <= 59
ClockHH(t) == 10 * (t[1] - 48) + (t[2] - 48)
ClockMM(t) == 10 * (t[4] - 48) + (t[5] - 48)
\* one- or two-digit fields without blanks ("9:30", "09:5"): the reading of such a text, <<hh, mm>>, or <<>> if it is none
ParseClock(t) ==
  LET cpos == {p \in 1..Len(t) : t[p] = Colon} IN
  IF Cardinality(cpos) # 1 THEN <<>>
  ELSE LET p == CHOOSE q \in cpos : TRUE
           h == SubSeq(t, 1, p - 1) m == SubSeq(t, p + 1, Len(t))
           num(d) == IF Len(d) = 1 THEN d[1] - 48 ELSE 10 * (d[1] - 48) + (d[2] - 48)
       IN IF Len(h) \in 1..2 /\ Len(m) \in 1..2 /\ (\A q \in 1..Len(h) : IsDigit(h[q])) /\ (\A q \in 1..Len(m) : IsDigit(m[q]))
             /\ num(h) <= 23 /\ num(m) <= 59
          THEN <<num(h), num(m)>> ELSE <<>>
\* lenient spellings the platform's own %H:%M grammar may accept (one-digit fields,
\* surrounding blanks): the statement does not say whether they are "valid" - left open
LenientClock(t) ==
  LET ink == {p \in 1..Len(t) : ~IsSpace(t[p])}
      lo == IF ink = {} THEN 1 ELSE CHOOSE p \in ink : \A q \in ink : p <= q
      hi == IF ink = {} THEN 0 ELSE CHOOSE p \in ink : \A q \in ink : p >= q
      body == SubSeq(t, lo, hi)            \* blanks around the text are tolerated, blanks inside it are not ("1 2:00", "18 :00")
      cpos == {p \in 1..Len(body) : body[p] = Colon}
  IN /\ Cardinality(cpos) = 1
     /\ LET p == CHOOSE q \in cpos : TRUE IN
          /\ p \in 2..3 /\ Len(body) - p \in 1..2
          /\ \A q \in 1..Len(body) : q # p => IsDigit(body[q])

---------------------------------------------------------------------------
(* instants after 2038-01-19 do not fit TLC's 32-bit integers: an instant given as four little-endian bytes is read RELATIVE  *)
(* to a base instant <<high, low>> (two 16-bit limbs) that is a whole number of weeks after the epoch, so that weekdays, day  *)
(* boundaries and zone offsets are unaffected; base <<0, 0>> is the epoch itself                                               *)
RelFits(b4, base) == LET d == (b4[4] * 256 + b4[3]) - base[1] IN d >= -32767 /\ d <= 32766
Rel(b4, base) == ((b4[4] * 256 + b4[3]) - base[1]) * 65536 + ((b4[2] * 256 + b4[1]) - base[2])

---------------------------------------------------------------------------
(* the 16-byte schedule record a device lists:                              *)
(*   id, enabled, day mask, state, start LE32, end LE32, 4 trailing bytes    *)
(* and the 11 bytes create_schedule sends after the slot placeholder ff:     *)
(*   01 mask 01 start LE32 end LE32                                          *)
CreateRecord(mask, start4, end4) == <<1, mask, 1>> \o start4 \o end4
ListRecord(id, enabled, mask, state, start4, end4, trail4) == <<id, enabled, mask, state>> \o start4 \o end4 \o trail4
\* what a listing record means (zone-dependent part is done by the caller)
RecId(r) == r[1]
RecEnabled(r) == r[2] = 1
RecMask(r) == r[3]
RecRecurring(r) == r[3] # 0
RecStart4(r) == SubSeq(r, 5, 8)
RecEnd4(r) == SubSeq(r, 9, 12)
=============================================================================
