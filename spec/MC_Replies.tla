------------------------------ MODULE MC_Replies ------------------------------
(* Round trips of the reply layouts over boundary values and agreement with the *)
(* real replies shipped in tests/testresources.                                 *)
EXTENDS Replies, Captures, TLC

Bases(n) == {Zeros(n), Rep(170, n), [k \in 1..n |-> (k * 37) % 256]}
S1 == [state : {0, 1}, watts : {0, 1, 219, 220, 2600, 65535}, left : {0, 1, 3599, 86399}, on : {0, 59, 86399}, auto : {0, 3600, 86340}]
TH == [state : {0, 1}, mode : 1..5, target : {0, 16, 30, 255}, fan : 0..3, swing : {0, 1}, temp10 : {0, 281, 65535},
       remote : {<<69, 76, 69, 67, 55, 48, 50, 50>>, <<90>>, <<65, 66, 67>>}]
SH == [position : {0, 1, 50, 100, 255}, direction : Directions]

VARIABLES fam, d
Init == fam = "root" /\ d = [x |-> 0]
Next == \/ fam = "root" /\ fam' \in {"state1", "thermo", "shutter", "sched"} /\ UNCHANGED d
        \/ fam = "state1" /\ d = [x |-> 0] /\ d' \in S1 /\ UNCHANGED fam
        \/ fam = "thermo" /\ d = [x |-> 0] /\ d' \in TH /\ UNCHANGED fam
        \/ fam = "shutter" /\ d = [x |-> 0] /\ d' \in SH /\ UNCHANGED fam
Spec == Init /\ [][Next]_<<fam, d>>
Ready == d # [x |-> 0]

State1RoundTrip == (fam = "state1" /\ Ready) => \A b \in Bases(107) :
   LET r == EncodeState1(b, d) x == DecodeState1(r) IN
     WellFormedState1(r) /\ x.state = d.state /\ x.watts = d.watts /\ x.left = HHMMSS(d.left) /\ x.on = HHMMSS(d.on) /\ x.auto = HHMMSS(d.auto)
ThermoRoundTrip == (fam = "thermo" /\ Ready) => \A b \in Bases(109) :
   LET r == EncodeThermo(b, d) IN WellFormedThermo(r) /\ DecodeThermo(r) = d
ShutterRoundTrip == (fam = "shutter" /\ Ready) => \A b \in Bases(100) :
   LET r == EncodeShutter(b, d) IN WellFormedShutter(r) /\ DecodeShutter(r) = d

\* real replies
ASSUME WellFormedThermo(Cap_BreezeStateReply)
ASSUME DecodeThermo(Cap_BreezeStateReply) = [state |-> 0, mode |-> 2, target |-> 24, fan |-> 0, swing |-> 0, temp10 |-> 281,
                                             remote |-> <<69, 76, 69, 67, 55, 48, 50, 50>>]
ASSUME WellFormedShutter(Cap_ShutterStateReply) /\ DecodeShutter(Cap_ShutterStateReply) = [position |-> 50, direction |-> <<0, 0>>]
ASSUME WellFormedState1(Cap_State1Reply) /\ DecodeState1(Cap_State1Reply).auto = HHMMSS(10800) /\ DecodeState1(Cap_State1Reply).state = 0
ASSUME SessionCarried(Cap_Login2Reply) /\ SessionOf(Cap_Login2Reply) = Zeros(4)
ASSUME WholeRecords(Cap_SchedulesReply2) /\ NRecords(Cap_SchedulesReply2) = 2
ASSUME RecId(RecordAt(Cap_SchedulesReply2, 1)) = 0 /\ RecMask(RecordAt(Cap_SchedulesReply2, 1)) = 252 /\ RecId(RecordAt(Cap_SchedulesReply2, 2)) = 1
ASSUME LET m == RecordMeaning(<< <<0, 10800>> >>, RecordAt(Cap_SchedulesReply2, 1)) IN      \* Asia/Jerusalem, April 2019 (+03:00)
         m.start = <<49, 55, 58, 51, 48>> /\ m.end = <<49, 56, 58, 51, 48>> /\ m.days = {1, 2, 3, 4, 5, 6} /\ m.recurring
ASSUME AmpsOk(1608, 73) /\ AmpsOk(2600, 118) /\ AmpsOk(3489, 159) /\ ~AmpsOk(1608, 72) /\ AmpsOk(11, 0) /\ AmpsOk(11, 1) /\ ~AmpsOk(12, 0)
=============================================================================
