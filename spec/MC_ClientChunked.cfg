SPECIFICATION Spec
CONSTANTS MaxOps = 3
          Splits = TRUE
INVARIANT SessionOfThisLogin
CHECK_DEADLOCK FALSE
