SPECIFICATION Spec
CONSTANT Grid <- QuickGrid
INVARIANT NamedDayIsSelected
INVARIANT TodayRule
INVARIANT TomorrowRule
INVARIANT WeekAheadRule
INVARIANT Earliest
INVARIANT Defined
CHECK_DEADLOCK FALSE
