------------------------------ MODULE MC_Bridge ------------------------------
(***************************************************************************)
(* The bridge life cycle with start() refined into one step per port (the   *)
(* code awaits between the binds), foreign sockets occupying and freeing    *)
(* ports, datagrams of every class queued per port and consumed one by one, *)
(* and a user callback that may raise on any invocation.                    *)
(***************************************************************************)
EXTENDS Bridge, TLC
CONSTANTS NPorts, MaxQueue, MaxSent
Ports == 1..NPorts
PortSeq == [k \in 1..NPorts |-> k]

VARIABLES B,         \* life-cycle record
          at,        \* 0: no start in progress; k: start() is about to bind port k
          opened,    \* ports the start in progress has bound so far
          raised,    \* the last start() raised
          queue,     \* per port: datagrams waiting in the socket buffer, as [seq, cls]
          consumed,  \* per port: datagrams the bridge has read, in order
          delivered, \* per port: seq numbers handed to the callback, in order
          nsent, stopped
vars == <<B, at, opened, raised, queue, consumed, delivered, nsent, stopped>>

Init == /\ B = NewBridge(PortSeq) /\ at = 0 /\ opened = {} /\ raised = FALSE
        /\ queue = [p \in Ports |-> <<>>] /\ consumed = [p \in Ports |-> <<>>] /\ delivered = [p \in Ports |-> <<>>]
        /\ nsent = 0 /\ stopped = FALSE

StartBegin == at = 0 /\ at' = 1 /\ opened' = {} /\ raised' = FALSE /\ stopped' = FALSE
              /\ UNCHANGED <<B, queue, consumed, delivered, nsent>>
StartPort ==
  /\ at \in 1..NPorts
  /\ LET p == PortSeq[at] IN
       IF Busy(B, p)
       THEN \* bind fails: close what this start opened, raise
            /\ B' = [B EXCEPT !.bound = @ \ opened, !.closing = @ \cup opened]
            /\ queue' = [q \in Ports |-> IF q \in opened THEN <<>> ELSE queue[q]]
            /\ at' = 0 /\ raised' = TRUE /\ opened' = {}
       ELSE /\ B' = [B EXCEPT !.bound = @ \cup {p}]
            /\ opened' = opened \cup {p} /\ at' = at + 1 /\ UNCHANGED <<raised, queue>>
  /\ UNCHANGED <<consumed, delivered, nsent, stopped>>
StartDone == at = NPorts + 1 /\ at' = 0 /\ B' = [B EXCEPT !.running = TRUE] /\ opened' = {}
             /\ UNCHANGED <<raised, queue, consumed, delivered, nsent, stopped>>
Stop == /\ at = 0 /\ B' = AfterStop(B) /\ stopped' = TRUE
        /\ queue' = [q \in Ports |-> <<>>]          \* unread datagrams die with the socket
        /\ UNCHANGED <<at, opened, raised, consumed, delivered, nsent>>
Cycle == B.closing # {} /\ B' = AfterCycle(B) /\ UNCHANGED <<at, opened, raised, queue, consumed, delivered, nsent, stopped>>
Occupy(p) == ~Busy(B, p) /\ B' = [B EXCEPT !.occupied = @ \cup {p}] /\ UNCHANGED <<at, opened, raised, queue, consumed, delivered, nsent, stopped>>
Free(p) == p \in B.occupied /\ B' = [B EXCEPT !.occupied = @ \ {p}] /\ UNCHANGED <<at, opened, raised, queue, consumed, delivered, nsent, stopped>>
Send(p, cls) ==
  /\ nsent < MaxSent /\ p \in B.bound /\ Len(queue[p]) < MaxQueue
  /\ queue' = [queue EXCEPT ![p] = Append(@, [seq |-> nsent + 1, cls |-> cls])]
  /\ nsent' = nsent + 1 /\ UNCHANGED <<B, at, opened, raised, consumed, delivered, stopped>>
\* the bridge reads one datagram; the callback (if invoked) may raise - the invocation happened either way
Receive(p) ==
  /\ p \in B.bound /\ queue[p] # <<>>
  /\ LET d == Head(queue[p]) IN
       /\ queue' = [queue EXCEPT ![p] = Tail(@)]
       /\ consumed' = [consumed EXCEPT ![p] = Append(@, d)]
       /\ \/ MustDeliver(d.cls) /\ delivered' = [delivered EXCEPT ![p] = Append(@, d.seq)]
          \/ ~MustDeliver(d.cls) /\ MayDeliver(d.cls) /\ delivered' \in {delivered, [delivered EXCEPT ![p] = Append(@, d.seq)]}
          \/ ~MayDeliver(d.cls) /\ delivered' = delivered
  /\ UNCHANGED <<B, at, opened, raised, nsent, stopped>>

Next == StartBegin \/ StartPort \/ StartDone \/ Stop \/ Cycle
        \/ \E p \in Ports : Occupy(p) \/ Free(p) \/ Receive(p) \/ \E c \in Classes : Send(p, c)
Spec == Init /\ [][Next]_vars

---------------------------------------------------------------------------
Seqs(q) == [k \in 1..Len(q) |-> q[k].seq]
SelectSeqs(q, T(_)) == Seqs(SelectSeq(q, T))
IsSubSeq(a, b) == \* a is a subsequence of b (order preserved)
  LET RECURSIVE F(_, _)
      F(i, j) == IF i > Len(a) THEN TRUE ELSE IF j > Len(b) THEN FALSE
                 ELSE IF a[i] = b[j] THEN F(i + 1, j + 1) ELSE F(i, j + 1)
  IN F(1, 1)
(* C17 *)
RunningIffListening == at = 0 => (B.running <=> (B.bound = Ports))
\* a start that raises leaves nothing listening that it opened itself and does not touch the flag
FailedStartClean == [][(at # 0 /\ at' = 0 /\ raised') => (B'.bound \cap opened = {} /\ B'.running = B.running /\ B'.bound = B.bound \ opened)]_vars
NothingBoundWhenStopped == (at = 0 /\ ~B.running) => B.bound \in {{}, Ports}
NoCallbackUnlessListening == [][\A p \in Ports : delivered'[p] # delivered[p] => p \in B.bound]_vars
NoCallbackAfterStop == [][stopped /\ at = 0 /\ ~B.running => delivered' = delivered]_vars
ReleasedAfterCycle == [][B.closing # {} /\ B'.closing = {} => \A p \in B.closing : ~(p \in B'.bound)]_vars
StopIdempotent == (at = 0 /\ ~B.running /\ B.bound = {}) => AfterStop(B) = B
Restartable == (at = 0 /\ ~B.running /\ B.closing = {} /\ B.occupied = {} /\ B.bound = {}) => StartSucceeds(B)
CoreAgrees == at = 0 /\ ~B.running /\ B.bound = {} =>
                 (StartSucceeds(B) <=> \A p \in Ports : ~Busy(B, p))
(* C07 *)
DeliveryExact == \A p \in Ports :
  /\ IsSubSeq(SelectSeqs(consumed[p], LAMBDA d : MustDeliver(d.cls)), delivered[p])        \* every valid one, in order
  /\ IsSubSeq(delivered[p], SelectSeqs(consumed[p], LAMBDA d : MayDeliver(d.cls)))         \* nothing else, in order
  /\ \A i, j \in 1..Len(delivered[p]) : i # j => delivered[p][i] # delivered[p][j]          \* no duplicates
NeverStuck == \A p \in Ports : (p \in B.bound /\ queue[p] # <<>>) => ENABLED Receive(p)
Bounded == TRUE
=============================================================================
