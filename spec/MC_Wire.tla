------------------------------- MODULE MC_Wire -------------------------------
(***************************************************************************)
(* Bounded-exhaustive self-check of Wire: for every frame kind and a        *)
(* boundary-complete argument grid, the encoding is well-formed (C01), the  *)
(* independently written decoder recovers exactly the abstract frame (C02:  *)
(* the layout is unambiguous, no two operations share an encoding), and the *)
(* frames pinned by the repository's signing tests are reproduced byte for  *)
(* byte.                                                                     *)
(***************************************************************************)
EXTENDS Wire, Captures, TLC

Sessions == {Zeros(4), <<1, 0, 0, 0>>, <<255, 255, 255, 255>>, <<18, 52, 86, 120>>}
Stamps == {Zeros(4), <<239, 141, 179, 92>>, <<255, 255, 255, 255>>}
Devs == {Zeros(3), <<161, 35, 188>>, <<255, 255, 255>>}
Keys == {<<0>>, <<24>>, <<255>>}
Ctx == [sess : Sessions, ts : Stamps, dev : Devs]

Timers == {TimerField(m) : m \in {0, 1, 90, 1092, 1093, 65535, 65536, 71582788}}
AutoOffs == {AutoOffField(s) : s \in {3600, 3659, 5400, 86340, 86399}}
Names == {NameField(c) : c \in {<<97, 98>>, <<1489, 1493>>, [k \in 1..32 |-> 97], [k \in 1..16 |-> 1488], <<128512, 128512>>,
                                 <<109, 121, 32, 100, 101, 118, 105, 99, 101, 32, 99, 111, 111, 108, 32, 110, 97, 109, 101>>}}
Times == {LE32(t) : t \in {0, 1620000000, 1790553600, 2147483647}}
PayloadLens == {1, 5, 11, 12, 15, 16, 17, 100, 168, 169, 170, 251, 252, 255, 256, 300, 2004}
Payload(n) == Zeros(4) \o [k \in 1..(n - 4) |-> 33 + ((7 * k) % 90)]

FramesOf(kind) ==
  CASE kind = "login1" -> {[kind |-> kind, sess |-> NoSession, ts |-> t, key |-> k] : t \in Stamps, k \in Keys}
    [] kind = "login2" -> {[kind |-> kind, sess |-> NoSession, ts |-> t, dev |-> d] : t \in Stamps, d \in Devs}
    [] kind \in {"getstate1", "getstate2", "getschedules", "runnerstop"} -> {c @@ [kind |-> kind] : c \in Ctx}
    [] kind = "control" -> {c @@ [kind |-> kind, on |-> o, timer |-> t] : c \in Ctx, o \in {0, 1}, t \in Timers \ {<<>>}}
    [] kind = "autooff" -> {c @@ [kind |-> kind, secs |-> s] : c \in Ctx, s \in AutoOffs}
    [] kind = "setname" -> {c @@ [kind |-> kind, name |-> n] : c \in Ctx, n \in Names}
    [] kind = "delschedule" -> {c @@ [kind |-> kind, slot |-> s] : c \in Ctx, s \in 0..7}
    [] kind = "createschedule" -> {c @@ [kind |-> kind, mask |-> m, start |-> s, end |-> e] : c \in Ctx, m \in {0, 2, 84, 254}, s \in Times, e \in Times}
    [] kind = "breezecmd" -> {c @@ [kind |-> kind, payload |-> Payload(n)] : c \in Ctx, n \in PayloadLens}
    [] kind = "breezestatus" -> {c @@ [kind |-> kind, state |-> s, mode |-> m, temp |-> t, fan |-> f, swing |-> w] :
                                   c \in Ctx, s \in {0, 1}, m \in 1..5, t \in {16, 30}, f \in 0..3, w \in {0, 1}}
    [] kind = "runnerpos" -> {c @@ [kind |-> kind, pos |-> p] : c \in Ctx, p \in {0, 1, 50, 100}}

NoFrame == [kind |-> "none"]
VARIABLES kind, cx, f
\* a tree (kind, then context, then arguments) so that TLC's workers share the enumeration
Init == kind = "root" /\ cx = <<>> /\ f = NoFrame
CtxKey(g) == <<g.sess, g.ts, IF "dev" \in DOMAIN g THEN g.dev ELSE g.key>>
Next == \/ kind = "root" /\ kind' \in Kinds /\ UNCHANGED <<cx, f>>
        \/ kind \in Kinds /\ cx = <<>> /\ cx' \in {CtxKey(g) : g \in FramesOf(kind)} /\ UNCHANGED <<kind, f>>
        \/ cx # <<>> /\ f = NoFrame /\ f' \in {g \in FramesOf(kind) : CtxKey(g) = cx} /\ UNCHANGED <<kind, cx>>
Spec == Init /\ [][Next]_<<kind, cx, f>>
Ready == f.kind # "none"

EncodingWellFormed == Ready => WellFormed(Frame(f)) /\ Len(Frame(f)) = FrameLen(f) /\ IsByteSeq(Frame(f))
DecodeInvertsEncode == Ready => DecodeFrame(Frame(f)) = f
FixedLengths == Ready =>
  LET n == Len(Frame(f)) IN
  CASE f.kind = "login1" -> n = 82 [] f.kind \in {"login2", "getstate1", "getstate2"} -> n = 48
    [] f.kind = "control" -> n = 93 [] f.kind = "autooff" -> n = 91 [] f.kind = "setname" -> n = 116
    [] f.kind = "getschedules" -> n = 87 [] f.kind = "delschedule" -> n = 88 [] f.kind = "createschedule" -> n = 99
    [] f.kind = "breezecmd" -> n = 87 + Len(f.payload) [] f.kind = "breezestatus" -> n = 94
    [] f.kind = "runnerstop" -> n = 89 [] f.kind = "runnerpos" -> n = 88
\* blanking hides exactly the bytes other properties own, nothing else
BlankKeepsTheRest == Ready =>
  LET b == Frame(f) IN \A k \in 1..Len(b) : (k \notin {3, 4} /\ k \notin 9..12 /\ k \notin 25..28 /\ k <= Len(b) - 4) => Blank(b)[k] = b[k]

\* the frames whose signature the repository's own tests pin
PinCtx == [sess |-> <<1, 0, 0, 0>>, ts |-> <<239, 141, 179, 92>>, dev |-> <<161, 35, 188>>]
ASSUME Frame([kind |-> "login1", sess |-> NoSession, ts |-> PinCtx.ts, key |-> <<24>>]) = Pin_Login1
ASSUME Frame(PinCtx @@ [kind |-> "getstate1"]) = Pin_GetState1
ASSUME Frame(PinCtx @@ [kind |-> "control", on |-> 1, timer |-> Zeros(4)]) = Pin_ControlOn
ASSUME Frame(PinCtx @@ [kind |-> "control", on |-> 0, timer |-> Zeros(4)]) = Pin_ControlOff
ASSUME Frame(PinCtx @@ [kind |-> "control", on |-> 1, timer |-> TimerField(90)]) = Pin_ControlOnTimer
ASSUME Frame(PinCtx @@ [kind |-> "autooff", secs |-> AutoOffField(5400)]) = Pin_AutoOff
ASSUME Frame(PinCtx @@ [kind |-> "setname", name |-> NameField(<<109, 121, 32, 100, 101, 118, 105, 99, 101, 32, 99, 111, 111, 108, 32, 110, 97, 109, 101>>)]) = Pin_SetName
ASSUME Frame(PinCtx @@ [kind |-> "getschedules"]) = Pin_GetSchedules
ASSUME TimerField(71582788) = <<240, 255, 255, 255>> /\ TimerField(71582789) = <<>> /\ TimerField(0) = Zeros(4)
ASSUME AutoOffField(3599) = <<>> /\ AutoOffField(86400) = <<>> /\ AutoOffField(86399) = LE32(86340)
ASSUME NameRejected(<<97>>) /\ NameRejected(<<>>) /\ NameRejected([k \in 1..33 |-> 97]) /\ NameRejected([k \in 1..17 |-> 1488])
ASSUME Utf8Seq(<<1513, 1500, 1493, 1501>>) = <<215, 169, 215, 156, 215, 149, 215, 157>>    \* "shalom" in Hebrew
ASSUME Utf8(128512) = <<240, 159, 152, 128>> /\ Utf8(233) = <<195, 169>> /\ Utf8(8364) = <<226, 130, 172>>
ASSUME IsUtf8(<<240, 159, 152, 128, 97>>) /\ ~IsUtf8(<<192, 128>>) /\ ~IsUtf8(<<237, 160, 128>>) /\ ~IsUtf8(<<255>>) /\ ~IsUtf8(<<226, 130>>)
=============================================================================
